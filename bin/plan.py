"""Declarative description of what bin/check runs for each property.

MODULES[m]      : trace specification of module m and its TLC graph configurations
PROPS[Cxx]      : module, TLC configurations (name, module, cfg, tiers), graph replays
                  (module, graph, tiers) and trace drivers (module, driver, tiers[, shards])
A flagged event / mismatch counts for property Cxx iff one of its tags starts with "Cxx:".
"""
MC_WORKERS = 8
MC_TIMEOUT = {"quick": 600, "thorough": 3000}
PARALLEL = {"quick": 6, "thorough": 6}
Q, T, QT = ("quick",), ("thorough",), ("quick", "thorough")

DEFAULT_ASSUMPTIONS = [
    "TLC explores the bounded specification exhaustively; the step to the real-scale implementation is carried by "
    "the graph replay and by trace validation of recorded executions (sampled unless coverage.exhaustive is true)",
    "the Rust harness reports observations faithfully (order keys / fixed-point images of f32 values)",
    "tla2tools (TLC, SANY, CommunityModules Json/IOUtils) and rustc/cargo are trusted",
]

MODULES = {
    "midi": {
        "trace_spec": "Trace_Midi", "trace_cfg": "Trace_Midi.cfg",
        "graphs": {
            "msg": {"module": "MC_Midi", "cfg": "Graph_Midi_msg.cfg"},
            "wire": {"module": "MC_Midi", "cfg": "Graph_Midi_wire.cfg"},
            "wirepb": {"module": "MC_Midi", "cfg": "Graph_Midi_wirepb.cfg"},
            "ctl": {"module": "MC_Midi", "cfg": "Graph_Midi_ctl.cfg"},
        },
    },
    "adsr": {"trace_spec": "Trace_Adsr", "trace_cfg": "Trace_Adsr.cfg",
             "graphs": {"fs128": {"module": "MC_Adsr", "cfg": "Graph_Adsr.cfg", "target": "adsr"}}},
    "quant": {"trace_spec": "Trace_Quantizer", "trace_cfg": "Trace_Quantizer.cfg",
              "graphs": {"real": {"module": "MC_Quantizer", "cfg": "Graph_Quantizer.cfg", "target": "quant"},
                         "realbig": {"module": "MC_Quantizer", "cfg": "Graph_Quantizer_big.cfg", "target": "quant"}}},
    "ribbon": {
        "trace_spec": "Trace_Ribbon", "trace_cfg": "Trace_Ribbon.cfg",
        "graphs": {
            "r100": {"module": "MC_Ribbon", "cfg": "Graph_Ribbon_100.cfg", "target": "ribbon100"},
            "r500": {"module": "MC_Ribbon", "cfg": "Graph_Ribbon_500.cfg", "target": "ribbon500"},
        },
    },
    "glide": {"trace_spec": "Trace_Glide", "trace_cfg": "Trace_Glide.cfg",
              "graphs": {"deadband": {"module": "MC_Glide", "cfg": "Graph_Glide.cfg", "target": "glide"}}},
    "params": {"trace_spec": "Trace_Params", "trace_cfg": "Trace_Params.cfg", "graphs": {}},
    "voice": {"trace_spec": "Trace_Voice", "trace_cfg": "Trace_Voice.cfg", "graphs": {}},
    "lfo": {"trace_spec": "Trace_Lfo", "trace_cfg": "Trace_Lfo.cfg",
            "graphs": {"fs128": {"module": "MC_Lfo", "cfg": "Graph_Lfo.cfg", "target": "lfo"}}},
}

MODULES["utils"] = {"trace_spec": "Trace_Utils", "trace_cfg": "Trace_Utils.cfg", "graphs": {}}
_UTILS_MC = ("utils", "MC_Utils", "MC_Utils.cfg", QT)

# the generic phase accumulator on its own, one trace configuration per width (the widths are
# constants of the specification); the four smallest are also enumerated by TLC and replayed
# (the degenerate widths <5,5>, <5,0>, <12,12> - no fraction bits / no index bits - are model-checked but not run on
# the code: the crate never instantiates them and a refactoring may assume 0 < index bits < total bits)
PACC_WIDTHS = [(4, 2), (6, 3), (8, 3), (16, 4), (24, 8), (24, 10), (28, 10)]
for _w, _i in PACC_WIDTHS:
    MODULES[f"pacc{_w}_{_i}"] = {
        "trace_spec": "Trace_PhaseAcc", "trace_cfg": f"Trace_PhaseAcc_{_w}_{_i}.cfg",
        "graphs": ({"all": {"module": "MC_PhaseAcc", "cfg": f"Graph_PhaseAcc_{_w}_{_i}.cfg", "target": f"pacc{_w}_{_i}"}}
                   if _w <= 6 else {}),
    }
_PACC_MC = [("pacc-4-2", "MC_PhaseAcc", "MC_PhaseAcc_4_2.cfg", QT), ("pacc-5-5", "MC_PhaseAcc", "MC_PhaseAcc_5_5.cfg", QT),
            ("pacc-5-0", "MC_PhaseAcc", "MC_PhaseAcc_5_0.cfg", QT), ("pacc-6-3", "MC_PhaseAcc", "MC_PhaseAcc_6_3.cfg", T)]
_PACC_GR = [("pacc4_2", "all", QT), ("pacc6_3", "all", QT)]
_PACC_TR_ALL = [(f"pacc{_w}_{_i}", "ops", QT) for _w, _i in PACC_WIDTHS] + \
               [(f"pacc{_w}_{_i}", "cycles", QT) for _w, _i in [(8, 3), (16, 4), (24, 10)]]
_PACC_TR_FEW = [("pacc24_10", "ops", QT), ("pacc24_8", "ops", QT), ("pacc16_4", "ops", QT), ("pacc24_10", "cycles", QT)]

_VOICE_MC = ("voice", "MC_Voice", "MC_Voice.cfg", QT)
_MIDI_MC = [
    ("midi-notes", "MC_Midi", "MC_Midi_notes.cfg", QT),
    ("midi-wire", "MC_Midi", "MC_Midi_wire.cfg", QT),
    ("midi-wirepb", "MC_Midi", "MC_Midi_wirepb.cfg", QT),
    ("midi-ctl", "MC_Midi", "MC_Midi_ctl.cfg", QT),
    ("midi-ctlfull", "MC_Midi", "MC_Midi_ctlfull.cfg", T),
    ("midi-notes4", "MC_Midi", "MC_Midi_notes4.cfg", T),
    ("midi-wide", "MC_Midi", "MC_Midi_wide.cfg", T),
]

PROPS = {
    "C04": {
        "module": "midi",
        "mc": _MIDI_MC,
        "graphs": [("midi", "msg", QT), ("midi", "wire", QT)],
        "traces": [("midi", "kbd", QT), ("midi", "framing", QT)],
        "rule": "kbd driver: distinct held-note lists reached (hash of the list); graph replay: distinct "
                "transitions, transition pairs and random-walk steps of the bounded state graph",
    },
    "C05": {
        "module": "midi",
        "mc": _MIDI_MC + [_VOICE_MC],
        "graphs": [("midi", "msg", QT), ("midi", "wire", QT)],
        "traces": [("midi", "kbd", QT), ("midi", "framing", QT), ("voice", "wired", QT)],
    },
    "C06": {
        "module": "midi",
        "mc": _MIDI_MC,
        "graphs": [("midi", "wire", QT), ("midi", "wirepb", QT)],
        "traces": [("midi", "framing", QT), ("midi", "short", QT, {"thorough": 4}), ("midi", "ctl", QT), ("midi", "kbd", QT)],
    },
    "C18": {
        "module": "midi",
        "mc": _MIDI_MC,
        "graphs": [("midi", "ctl", QT), ("midi", "wirepb", QT)],
        "traces": [("midi", "ctl", QT), ("midi", "framing", QT)],
    },
}

_LFO_MC = [("lfo", "MC_Lfo", "MC_Lfo.cfg", QT), ("lfo-8bit", "MC_Lfo", "MC_Lfo_8bit.cfg", T)]
_LFO_SWEEP = ("lfo", "sweep", T, {"thorough": 16})

PROPS.update({
    "C10": {
        "module": "lfo", "mc": _LFO_MC, "graphs": [("lfo", "fs128", QT)],
        "traces": [("lfo", "shapes", QT), ("lfo", "freq", QT), ("lfo", "extreme", QT), ("lfo", "retune", QT), _LFO_SWEEP],
        "rule": "distinct table cells (of 1024) whose phases were read out; thorough: all 2^24 phases",
    },
    "C11": {"module": "lfo", "mc": _LFO_MC, "graphs": [("lfo", "fs128", QT)], "traces": [("lfo", "freq", QT), ("lfo", "shapes", QT), ("lfo", "extreme", QT), ("lfo", "retune", QT)]},
    "C12": {"module": "lfo", "mc": _LFO_MC, "graphs": [("lfo", "fs128", QT)], "traces": [("lfo", "shapes", QT), ("lfo", "extreme", QT), ("lfo", "retune", QT), _LFO_SWEEP]},
})

_ADSR_MC = [("adsr", "MC_Adsr", "MC_Adsr.cfg", QT), ("adsr-live", "MC_Adsr", "MC_Adsr_live.cfg", QT),
            ("adsr-big", "MC_Adsr", "MC_Adsr_big.cfg", T), ("adsr-live-big", "MC_Adsr", "MC_Adsr_live_big.cfg", T)]
_ADSR_TR = [("adsr", "random", QT), ("adsr", "durations", QT), ("adsr", "cells", QT)]
PROPS.update({
    "C01": {"module": "adsr", "mc": _ADSR_MC, "traces": _ADSR_TR, "graphs": [("adsr", "fs128", QT)],
            "rule": "distinct (phase, table cell) pairs (of 3 x 1024 + 2) in which a logged tick landed"},
    "C02": {"module": "adsr", "mc": _ADSR_MC, "traces": _ADSR_TR, "graphs": [("adsr", "fs128", QT)]},
    "C03": {"module": "adsr", "mc": _ADSR_MC, "traces": _ADSR_TR},
})

_Q_MC = [("quant", "MC_Quantizer", "MC_Quantizer.cfg", QT), ("quant-big", "MC_Quantizer", "MC_Quantizer_big.cfg", T)]
_Q_SWEEP = ("quant", "sweep", QT, {"thorough": 16})
# every transition of the real-size quantizer graph (31 scales x 170 inputs x allow / forbid histories)
_Q_GR = [("quant", "real", QT), ("quant", "realbig", T)]   # thorough: 2 209 states, 477 144 transitions
PROPS.update({
    "C07": {"module": "quant", "mc": _Q_MC, "graphs": _Q_GR, "traces": [("quant", "hyst", QT), _Q_SWEEP, ("quant", "boundaries", QT)]},
    "C08": {"module": "quant", "mc": _Q_MC, "graphs": _Q_GR, "traces": [_Q_SWEEP, ("quant", "boundaries", QT), ("quant", "hyst", QT)],
            "rule": "distinct scales swept on fresh quantizers (run-length compressed input->note map); thorough: all "
                    "4095 scales x all 10,000,001 microvolt inputs"},
    "C09": {"module": "quant", "mc": _Q_MC, "graphs": _Q_GR, "traces": [("quant", "hyst", QT)]},
    "C19": {"module": "quant", "mc": _Q_MC, "traces": [("quant", "hyst", QT), _Q_SWEEP, ("quant", "boundaries", QT)]},
})

_R_MC = [("ribbon", "MC_Ribbon", "MC_Ribbon.cfg", QT), ("ribbon-real", "MC_Ribbon", "MC_Ribbon_real.cfg", QT)]
_R_GR = [("ribbon", "r100", QT), ("ribbon", "r500", QT)]
PROPS.update({
    "C15": {"module": "ribbon", "mc": _R_MC, "graphs": _R_GR, "traces": [("ribbon", "press", QT)]},
    "C16": {"module": "ribbon", "mc": _R_MC, "graphs": _R_GR, "traces": [("ribbon", "press", QT), ("ribbon", "pair", QT)]},
})

_G_MC = [("glide", "MC_Glide", "MC_Glide.cfg", QT)]
_G_TR = [("glide", "sched", QT), ("glide", "steps", QT), ("glide", "deadband", QT), ("glide", "extreme", QT),
         ("glide", "rates", QT)]
PROPS.update({
    "C13": {"module": "glide", "mc": _G_MC, "traces": _G_TR,
            "rule": "distinct (sample rate, requested time) settings exercised; every logged sample evaluates the "
                    "one-step hull, range, approach and crossing predicates"},
    # every transition (and pair, and walk) of the set_time dead-band graph on the real processor at 100 Hz
    "C14": {"module": "glide", "mc": _G_MC, "traces": _G_TR, "graphs": [("glide", "deadband", QT)]},
})

PROPS.update({
    "C20": {
        "module": "params",
        "mc": [("params", "MC_Params", "MC_Params.cfg", QT)],
        "traces": [("params", "floats", QT), ("params", "ints", QT), ("quant", "hyst", QT), ("adsr", "extreme", QT)],
        "rule": "all 2^32 f32 bit patterns of both conversions (run-length compressed over the order key), all 256 "
                "note values, all 256 channel values x 16 channels",
        "exhaustive": True,
    },
    "C17": {
        "module": "all",
        "mc": [("adsr-live", "MC_Adsr", "MC_Adsr_live.cfg", QT), ("adsr-live-big", "MC_Adsr", "MC_Adsr_live_big.cfg", T),
               ("adsr", "MC_Adsr", "MC_Adsr.cfg", T)],
        "traces": [("adsr", "extreme", QT), ("adsr", "durations", QT), ("lfo", "extreme", QT), ("glide", "extreme", QT),
                   ("ribbon", "extreme", QT), ("glide", "rates", QT), ("quant", "hyst", QT), ("quant", "sweep", QT), ("midi", "framing", QT),
                   ("midi", "short", QT, {"thorough": 4}), ("params", "floats", QT), ("params", "ints", QT), ("glide", "sched", QT),
                   ("adsr", "random", QT), ("lfo", "freq", QT), ("ribbon", "press", QT), ("voice", "wired", QT)],
        "rule": "calls executed in the overflow-checks + debug-assertions build inside catch_unwind, over the argument "
                "end points of all six modules; a panic is a logged event no trace action accepts",
    },
})

# the accumulator on its own (MC_PhaseAcc / Trace_PhaseAcc): phase advance, increment, positioning and the
# roll-over latch belong to C11 (and the latch to C02, which ends a phase on it); the index / fraction
# split and the ramp are what C10, C12 and C03 read the tables with
PROPS["C11"]["mc"] = PROPS["C11"]["mc"] + _PACC_MC
PROPS["C11"]["graphs"] = PROPS["C11"]["graphs"] + _PACC_GR
PROPS["C11"]["traces"] = PROPS["C11"]["traces"] + _PACC_TR_ALL
PROPS["C02"]["mc"] = PROPS["C02"]["mc"] + _PACC_MC
PROPS["C02"]["graphs"] = PROPS["C02"]["graphs"] + _PACC_GR[:2]
PROPS["C02"]["traces"] = PROPS["C02"]["traces"] + _PACC_TR_FEW
for _p in ("C10", "C12", "C03"):
    PROPS[_p]["graphs"] = PROPS[_p].get("graphs", []) + _PACC_GR
    PROPS[_p]["traces"] = PROPS[_p]["traces"] + _PACC_TR_FEW
PROPS["C17"]["traces"] = PROPS["C17"]["traces"] + [("pacc24_10", "ops", QT), ("pacc28_10", "ops", QT), ("pacc4_2", "ops", QT)]

# the numeric helpers (Utils / Trace_Utils): interpolation is what makes the table read-outs continuous (C03, C12),
# ilog_2 sizes the index field of both accumulators (C01, C10), fabs / is_almost decide whether the glide honours a
# set_time call (C14)
for _p, _drv in (("C03", "lerp"), ("C12", "lerp"), ("C01", "ilog"), ("C10", "ilog"), ("C14", "fabs"), ("C14", "almost")):
    PROPS[_p]["mc"] = PROPS[_p]["mc"] + ([_UTILS_MC] if _UTILS_MC not in PROPS[_p]["mc"] else [])
    PROPS[_p]["traces"] = PROPS[_p]["traces"] + [("utils", _drv, QT)]
PROPS["C17"]["traces"] = PROPS["C17"]["traces"] + [("utils", "almost", QT), ("utils", "lerp", QT), ("utils", "ilog", QT)]

# unbounded roll-over law of the 24-bit accumulator (Apalache, inductive invariant)
_PA_IND = ("phaseacc-ind", "apalache/PhaseAccInd.tla",
           [["--init=Init", "--inv=IndInv", "--length=0"], ["--init=IndInit", "--inv=IndInv", "--length=1"]], QT)
PROPS["C02"]["apalache"] = [_PA_IND]
PROPS["C17"]["apalache"] = [_PA_IND]
# the press logic of the ribbon for every (settling count, capacity) (Apalache, inductive invariant)
_RIB_IND = ("ribbon-gate-ind", "apalache/RibbonGateInd.tla",
            [["--init=Init", "--inv=IndInv", "--length=0"], ["--init=IndInit", "--inv=IndInv", "--length=1"]], QT)
PROPS["C15"]["apalache"] = [_RIB_IND]
# gate and edge latches of the MIDI voice layer for every list capacity (Apalache, inductive invariant)
_MIDI_IND = ("midi-gate-ind", "apalache/MidiGateInd.tla",
             [["--init=Init", "--inv=IndInv", "--length=0"], ["--init=IndInit", "--inv=IndInv", "--length=1"]], QT)
# the one-pole step with unbounded inputs: hull (inductive) and monotone approach (action invariant)
_GLIDE_IND = ("glide-hull-ind", "apalache/GlideHullInd.tla",
              [["--init=Init", "--inv=IndInv", "--length=0"], ["--init=IndInit", "--inv=IndInv", "--length=1"],
               ["--init=IndInit", "--inv=Approach", "--length=1"]], QT)
PROPS["C13"]["apalache"] = [_GLIDE_IND]
PROPS["C20"]["apalache"] = [("params-lemmas", "apalache/ParamsLemmas.tla", [["--init=Init", "--inv=Lemmas", "--length=0"]], QT)]
_LFO_SHAPES = ("lfo-shapes", "apalache/LfoShapes.tla", [["--init=Init", "--inv=Shapes", "--length=0"]], QT)
PROPS["C10"]["apalache"] = [_LFO_SHAPES]
PROPS["C12"]["apalache"] = [_LFO_SHAPES]
_Q_WIN = ("quant-window", "apalache/QuantWindow.tla", [["--init=Init", "--inv=Window", "--length=0"]], QT)
PROPS["C09"]["apalache"] = [_Q_WIN]
PROPS["C19"]["apalache"] = [_Q_WIN]
# the memoryless rule in real units over three octaves, scale and inputs symbolic (13 minutes: thorough tier)
PROPS["C08"]["apalache"] = [("quant-rule", "apalache/QuantRule.tla", [["--init=InitAny", "--inv=Defined", "--length=0"], ["--init=Init", "--inv=Inv", "--length=0"]], T)]
PROPS["C04"]["apalache"] = [_MIDI_IND]
PROPS["C05"]["apalache"] = [_MIDI_IND]

HOOK_COMMITS = ["36838b7", "ded5069", "03075b1"]
