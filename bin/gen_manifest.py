#!/usr/bin/env python3
"""Write MANIFEST.json from bin/plan.py and the table of per-property texts below."""
import json
import os
import sys

ROOT = os.path.dirname(os.path.dirname(os.path.abspath(__file__)))
sys.path.insert(0, os.path.join(ROOT, "bin"))
import plan  # noqa: E402

TEXT = {
    "C01": ("Adsr.tla (phase machine on the shared PhaseAcc.tla, fixed-point curves) is model-checked over all "
            "interleavings of gate_on/gate_off/tick/set_input on a 5-bit instance (range, per-phase monotonicity, exact "
            "end levels as invariants / action properties); recorded runs of the real Adsr (phase and accumulator via "
            "the verif-hooks accessors, value as order key and Q24) are validated by TLC against Trace_Adsr.tla, which "
            "evaluates range, monotonicity, end levels (exact, on keys) and the 0.5% curve fidelity against reference "
            "tables generated from the documented RC formulas at every tick", "5"),
    "C02": ("phase order and 'ends on the first tick at which the increments add up to the counter range' are checked "
            "by TLC on the bounded Adsr.tla (ghost prog); on the real code every tick's observed accumulator step is "
            "checked against the exact ideal step 2^24/(T*fs) (u128 rational arithmetic) with the stated rounding "
            "bounds, and leaving/overstaying a phase against the same bounds, over the (fs, T) plane incl. sub-sample "
            "phases; every transition of the bounded model is replayed on the real Adsr (128 Hz, exact increments); the "
            "roll-over law of the 24-bit accumulator is discharged for all increments by Apalache as an inductive "
            "invariant", "5 and 12.6"),
    "C03": ("the per-tick change is bounded by slope * span * step (+ sustain change) in TLC on the bounded model and "
            "at every logged tick of the real code (slowest envelope around every table cell border, re-triggers at "
            "random positions)", "5"),
    "C04": ("TLC checks gate/held-list/selected-note invariants and action properties on every interleaving of note "
            "messages, All-Notes-Off, polls and mode switches of the bounded Midi.tla; every transition and every pair "
            "of consecutive transitions of that graph is replayed on MonoMidiReceiver; keyboard-like and random-byte "
            "traces of the real receiver (all getters after every byte) are validated by TLC against Trace_Midi.tla",
            "5"),
    "C05": ("the edge latches are specified from the statement (raised exactly by a gate drop / qualifying note-on, "
            "cleared exactly by their poll or the opposite event); TLC checks Prop_C05_fall/rise on all interleavings, "
            "graph replay polls at every position, recorded traces poll at random positions", "5"),
    "C06": ("Midi.tla's wire layer is a reference MIDI 1.0 decoder written from the standard; TLC checks its framing "
            "consequences over a byte alphabet; the byte-level graph is replayed on the receiver; unstructured, "
            "status-heavy, injected (real-time / foreign / truncated at every split point) and exhaustive short byte "
            "sequences are validated byte by byte against it", "5"),
    "C07": ("Quantizer.tla: TLC checks 'every conversion reports an allowed pitch class' and the forbid-last rule over "
            "all histories of allow/forbid/convert of a bounded instance; recorded histories of the real Quantizer "
            "(scale mask after every edit, note of every conversion) are validated against Trace_Quantizer.tla; every "
            "transition of the same actions at the real constants (1/240 V grid, 31 scales; thorough 63) is replayed on the "
            "real Quantizer", "5 and 12.8"),
    "C08": ("Rule/Accept in Quantizer.tla are the declarative reading of the statement (theorems: monotone, octave "
            "periodic, chromatic = floor, convex acceptance regions, checked by TLC for all scales of the bounded "
            "instance); fresh-quantizer sweeps of the real code are run-length compressed to input intervals per note "
            "and TLC checks both ends of every interval against Accept (10 microvolt ties); the real-constants graph replay "
            "compares the note of every transition with the specification's", "5 and 12.8"),
    "C09": ("Convert = window test else Rule; TLC checks stability, freedom, single note change under small noise "
            "(chromatic) and monotonicity over all histories of the bounded instance; ramps, boundary noise, window-edge "
            "inputs, jumps and scale edits on the real code are validated conversion by conversion; every transition, pair of "
            "transitions and random walks of the real-constants graph (inputs two grid units inside / outside every window "
            "edge) are replayed on the real Quantizer", "5 and 12.8"),
    "C10": ("Lfo.tla gives the five shapes as exact integer state functions of the phase; the real oscillator's read-outs "
            "(exact integer images, sine as Q24) are validated against them and against a sine reference generated from "
            "sin(2 pi p); thorough tier reads out all 2^24 phases; the graph replay of the bounded Lfo.tla compares all five "
            "shapes at the phase read back after every transition", "5 and 12.8"),
    "C11": ("phase advance, reset, set_phase and the increment realised for a requested frequency (bounds evaluated by the "
            "specification on the exact ideal step logged as floor + 16 fractional bits) are checked on every recorded "
            "call; drift-freedom is an invariant of the bounded model", "5"),
    "C12": ("adjacent read-outs one tick apart are bounded by 2 pi 1.002 * step (sine) and 4 * step (triangle) at every "
            "recorded pair, incl. every cell border and the wrap with increment 1; thorough: all 2^24 adjacent pairs; the "
            "sine step across every tick transition of the replayed Lfo graph", "5 and 12.8"),
    "C13": ("Glide.tla models the lag as 'move a fixed fraction toward the input'; TLC checks hull, monotone approach, "
            "settling and the dead-band logic over all schedules of a bounded instance; the real filter is validated "
            "sample by sample against an envelope (one-step hull, range, no retreat, no crossing beyond the f32 band)", "5"),
    "C14": ("the dead band / clamps decide the time in effect in the specification; coverage windows (>= 99.5% after t, "
            "40-55% after t/10, fastest settled in 8 samples, > 10 s = 10 s) are evaluated on recorded steps over the "
            "(fs, t) plane and after chains of nearby set_time calls; every history of up to five set_time calls of the "
            "dead-band graph is replayed on the real processor and probed against a new processor given the time in effect", "5 and 12.8"),
    "C15": ("Ribbon.tla: press <=> unbroken in-range run of capture length (ghost streak), edges exactly once; TLC on "
            "small and on the real 100/500 Hz configurations, whose complete graphs are replayed on RibbonController; "
            "tap/press/glitch traces at all seven rates are validated poll by poll", "5"),
    "C16": ("the specification keeps the capture window and its running sum and computes the corrected mean in Q24; "
            "every reported value is checked against it; pair runs of two controllers differing only in samples that must "
            "not matter (earlier press, newest discarded samples) must agree exactly, a raised sample must not lower it", "5"),
    "C17": ("liveness (every attack reaches sustain, every release reaches rest once gate events stop) is checked by TLC "
            "under weak fairness of Tick with no state constraint; all six modules are driven over their argument end "
            "points in the overflow-checks/debug-assertions build inside catch_unwind, a panic is an event no trace "
            "action accepts; on the real code an envelope that overstays a phase is flagged at a definite tick", "5"),
    "C18": ("controller routing/reset/no-op and pitch-bend assembly are action properties checked by TLC; all 128x128 "
            "controller/value pairs and all 16384 pitch-bend values are recorded from the real receiver and validated "
            "(scaling via order keys, strict monotonicity, exact anchors)", "5"),
    "C19": ("stairstep = note/12 is an exact order-key comparison; stairstep + fraction is compared with the input in ulps "
            "of the larger operand; fraction ranges (chromatic fresh, hysteresis-kept) in microvolt units with the 10 uV "
            "tie tolerance; on every recorded conversion and every run of the fresh sweeps", "5"),
    "C20": ("both float conversions are evaluated for all 2^32 bit patterns and reported as maximal runs over the order "
            "key; TLC checks that the runs tile the key range and that each is the identity inside the bounds or the "
            "nearer bound outside (NaN -> a bound); all 256 note and channel values; envelope pairs (raw vs bound)", "5"),
}

NOTE = ("assumes TLC/SANY/CommunityModules, rustc and the harness' faithful logging; bounded model (small constants) for "
        "the exhaustive part, sampled real-scale traces unless evidence says exhaustive")


def main():
    checks = []
    for pid in sorted(plan.PROPS):
        text, sec = TEXT.get(pid, ("TLC model checking of the bounded specification plus trace validation of the real "
                                   "code against it", "5"))
        checks.append({
            "property_id": pid,
            "quick_cmd": f"bin/check {pid} --tier quick",
            "thorough_cmd": f"bin/check {pid} --tier thorough",
            "evidence_file": f"/verif/evidence/{pid}.json",
            "replay_cmd_template": f"bin/check {pid} --replay {{path}}",
            "engine": "tla",
            "level_claimed": {"category": "model_checking", "text": text, "design_ref": f"DESIGN.md section {sec}, {pid}"},
            "level_note": NOTE,
            "technique": "explicit TLA+ specification: TLC exhaustive model checking + spec->impl graph replay + "
                         "impl->spec trace validation (TLC)",
        })
    props = [json.loads(l)["id"] for l in open(os.path.join(ROOT, "properties.jsonl"))]
    na = [{"property_id": p, "reason": "check not built yet (work in progress; see DESIGN.md section 10)"}
          for p in props if p not in plan.PROPS]
    man = {
        "version": 1,
        "setup_cmd": "bin/setup",
        "hooks": {
            "guard": "cargo features verif-hooks (read-only accessors) and verif-hooks-aux (re-export of the private phase accumulator and numeric helpers)",
            "enable": "the harness crate depends on /repo with features = [\"verif-hooks\"] and, through its default feature aux-hooks, verif-hooks-aux (harness/Cargo.toml); bin/check falls back to building without aux-hooks, then without core-hooks, if a hook does not compile in the tree under test (the steps that need it are skipped; C01-C03 need core-hooks)",
            "baseline_off_cmd": "cd /repo && cargo test --workspace --no-fail-fast --offline",
            "source_commits": plan.HOOK_COMMITS,
            "add_only": True,
        },
        "engines": [{
            "name": "tla", "path": "bin/check",
            "serves_properties": sorted(plan.PROPS),
            "kind_free_text": "TLA+ specifications in spec/ (one module per component), TLC for exhaustive bounded model "
                              "checking, for generating the state graphs replayed on the Rust objects, and for validating "
                              "ndjson traces recorded from the Rust objects (monitor-mode trace specifications)",
        }],
        "checks": checks,
        "not_applicable": na,
        "notes": "bin/check caches step results under .cache keyed by the content hash of /repo (sources, Cargo files), "
                 "spec/, harness/src and bin/ plus seed and tier; any change to any of them re-runs the step. "
                 "Exit 2 = tool failure, never a violation.",
    }
    with open(os.path.join(ROOT, "MANIFEST.json"), "w") as f:
        json.dump(man, f, indent=1)
        f.write("\n")
    print(f"MANIFEST.json: {len(checks)} checks, {len(na)} not yet applicable")


if __name__ == "__main__":
    main()
