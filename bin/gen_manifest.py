#!/usr/bin/env python3
"""Write MANIFEST.json from bin/plan.py and the table of per-property texts below."""
import json
import os
import sys

ROOT = os.path.dirname(os.path.dirname(os.path.abspath(__file__)))
sys.path.insert(0, os.path.join(ROOT, "bin"))
import plan  # noqa: E402

TEXT = {
    "C04": ("TLC checks gate/held-list/selected-note invariants and action properties on every interleaving of note "
            "messages, All-Notes-Off, polls and mode switches of the bounded Midi.tla; every transition and every pair "
            "of consecutive transitions of that graph is replayed on MonoMidiReceiver; keyboard-like and random-byte "
            "traces of the real receiver (all getters after every byte) are validated by TLC against Trace_Midi.tla",
            "5"),
    "C05": ("the edge latches are specified from the statement (raised exactly by a gate drop / qualifying note-on, "
            "cleared exactly by their poll or the opposite event); TLC checks Prop_C05_fall/rise on all interleavings, "
            "graph replay polls at every position, recorded traces poll at random positions", "5"),
    "C06": ("Midi.tla's wire layer is a reference MIDI 1.0 decoder written from the standard; TLC checks its framing "
            "consequences over a byte alphabet; the byte-level graph is replayed on the receiver; unstructured, "
            "status-heavy, injected (real-time / foreign / truncated at every split point) and exhaustive short byte "
            "sequences are validated byte by byte against it", "5"),
    "C18": ("controller routing/reset/no-op and pitch-bend assembly are action properties checked by TLC; all 128x128 "
            "controller/value pairs and all 16384 pitch-bend values are recorded from the real receiver and validated "
            "(scaling via order keys, strict monotonicity, exact anchors)", "5"),
}

NOTE = ("assumes TLC/SANY/CommunityModules, rustc and the harness' faithful logging; bounded model (small constants) for "
        "the exhaustive part, sampled real-scale traces unless evidence says exhaustive")


def main():
    checks = []
    for pid in sorted(plan.PROPS):
        text, sec = TEXT.get(pid, ("TLC model checking of the bounded specification plus trace validation of the real "
                                   "code against it", "5"))
        checks.append({
            "property_id": pid,
            "quick_cmd": f"bin/check {pid} --tier quick",
            "thorough_cmd": f"bin/check {pid} --tier thorough",
            "evidence_file": f"/verif/evidence/{pid}.json",
            "replay_cmd_template": f"bin/check {pid} --replay {{path}}",
            "engine": "tla",
            "level_claimed": {"category": "model_checking", "text": text, "design_ref": f"DESIGN.md section {sec}, {pid}"},
            "level_note": NOTE,
            "technique": "explicit TLA+ specification: TLC exhaustive model checking + spec->impl graph replay + "
                         "impl->spec trace validation (TLC)",
        })
    props = [json.loads(l)["id"] for l in open(os.path.join(ROOT, "properties.jsonl"))]
    na = [{"property_id": p, "reason": "check not built yet (work in progress; see DESIGN.md section 10)"}
          for p in props if p not in plan.PROPS]
    man = {
        "version": 1,
        "setup_cmd": "bin/setup",
        "hooks": {
            "guard": "cargo feature verif-hooks",
            "enable": "the harness crate depends on /repo with features = [\"verif-hooks\"] (harness/Cargo.toml)",
            "baseline_off_cmd": "cd /repo && cargo test --workspace --no-fail-fast --offline",
            "source_commits": plan.HOOK_COMMITS,
            "add_only": True,
        },
        "engines": [{
            "name": "tla", "path": "bin/check",
            "serves_properties": sorted(plan.PROPS),
            "kind_free_text": "TLA+ specifications in spec/ (one module per component), TLC for exhaustive bounded model "
                              "checking, for generating the state graphs replayed on the Rust objects, and for validating "
                              "ndjson traces recorded from the Rust objects (monitor-mode trace specifications)",
        }],
        "checks": checks,
        "not_applicable": na,
        "notes": "bin/check caches step results under .cache keyed by the content hash of /repo (sources, Cargo files), "
                 "spec/, harness/src and bin/ plus seed and tier; any change to any of them re-runs the step. "
                 "Exit 2 = tool failure, never a violation.",
    }
    with open(os.path.join(ROOT, "MANIFEST.json"), "w") as f:
        json.dump(man, f, indent=1)
        f.write("\n")
    print(f"MANIFEST.json: {len(checks)} checks, {len(na)} not yet applicable")


if __name__ == "__main__":
    main()
