"""Turn the EDGE/INIT lines printed by a TLC run with Emit = TRUE into the replay file of the
Rust harness: states are numbered in order of first appearance, every transition becomes an edge
[src, dst, op, projection'], and a breadth-first spanning tree gives each state a shortest
operation path from the initial state."""
import json
from collections import deque


def _payload(line):
    # <<"EDGE", "....">>  - the second component is a TLA+ string holding JSON
    i = line.index(', "') + 3
    j = line.rindex('">>')
    return json.loads(line[i:j].replace('\\"', '"').replace("\\\\", "\\"))


def build(tlc_output, out_path):
    ids = {}
    edges = []
    init = None
    init_proj = None

    def sid(v):
        k = json.dumps(v, sort_keys=True, separators=(",", ":"))
        if k not in ids:
            ids[k] = len(ids)
        return ids[k]

    lines = tlc_output.splitlines()
    for li, line in enumerate(lines):
        if line.strip() == '<< "INIT",' and li + 1 < len(lines):
            # a long initial state is pretty-printed over two lines
            line = '<<"INIT", ' + lines[li + 1].strip().replace('" >>', '">>')
        if line.startswith('<<"INIT"'):
            v = _payload(line)
            init = sid(v[0])
            init_proj = v[1]
        elif line.startswith('<<"EDGE"'):
            v = _payload(line)
            s = sid(v[0])
            t = sid(v[2])
            edges.append([s, t, v[1], v[3]])
    if init is None:
        raise RuntimeError("no INIT line in TLC output")
    n = len(ids)
    out = [[] for _ in range(n)]
    for i, e in enumerate(edges):
        out[e[0]].append(i)
    parent = [-1] * n
    seen = [False] * n
    seen[init] = True
    dq = deque([init])
    while dq:
        u = dq.popleft()
        for ei in out[u]:
            v = edges[ei][1]
            if not seen[v]:
                seen[v] = True
                parent[v] = ei
                dq.append(v)
    # states produced but cut by the state constraint have no out-edges; that is fine
    with open(out_path, "w") as f:
        json.dump({"nstates": n, "init": init, "init_proj": init_proj, "edges": edges, "parent": parent}, f,
                  separators=(",", ":"))
    return {"states": n, "edges": len(edges), "samples": [edges[0], edges[len(edges) // 2], edges[-1]]}
