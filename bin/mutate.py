#!/usr/bin/env python3
"""bin/mutate.py <repo-copy> <out.jsonl> [--files a.rs,b.rs] [--max N]

Systematic mutation run (development aid, not a registered check): applies one small syntactic change at
a time to the non-test code of a COPY of the repository, discards changes the repository's own tests
already catch, and runs the quick checks of the properties anchored in the changed file.  Survivors are
either equivalent changes or gaps in the checks; each is written to <out.jsonl> for triage.

Never run it on /repo itself: it needs VERIF_REPO to point at the copy and harness/Cargo.toml to depend on
the copy (see DESIGN.md 12.7 for the vp run command line).
"""
import json
import os
import re
import subprocess
import sys
import time

ROOT = os.path.dirname(os.path.dirname(os.path.abspath(__file__)))

FILE_PROPS = {
    "adsr.rs": ["C02", "C01", "C03", "C17", "C20"],
    "phase_accumulator.rs": ["C02", "C11", "C12", "C10", "C03", "C01", "C17"],
    "lfo.rs": ["C10", "C12", "C11", "C17"],
    "mono_midi_receiver.rs": ["C04", "C05", "C18", "C06", "C20", "C17"],
    "quantizer.rs": ["C08", "C09", "C07", "C19", "C20", "C17"],
    "ribbon_controller.rs": ["C15", "C16", "C17"],
    "glide_processor.rs": ["C13", "C14", "C17"],
    "utils.rs": ["C01", "C03", "C10", "C12", "C14", "C13"],
    "lib.rs": [],
}

SWAPS = [
    (" < ", " <= "), (" <= ", " < "), (" > ", " >= "), (" >= ", " > "), (" == ", " != "), (" != ", " == "),
    (" + ", " - "), (" - ", " + "), (" * ", " / "), (" && ", " || "), (" || ", " && "),
    (".min(", ".max("), (".max(", ".min("), ("true", "false"), ("false", "true"),
    (" | ", " & "), (" += ", " -= "), (" >> ", " << "),
    (" % ", " / "), (" / ", " * "), (" << ", " >> "), (" & ", " | "), (" -= ", " += "),
]


def code_region(text):
    i = text.find("#[cfg(test)]")
    return len(text) if i < 0 else i


def mutants_of(path):
    text = open(path).read()
    end = code_region(text)
    lines = text[:end].split("\n")
    out = []
    pos = 0
    for ln, line in enumerate(lines):
        stripped = line.strip()
        is_code = stripped and not stripped.startswith("//") and not stripped.startswith("#[") \
            and not stripped.startswith("pub const") and not stripped.startswith("const ") \
            and not stripped.startswith("use ")
        if is_code:
            code = line.split("//")[0]
            for a, b in SWAPS:
                start = 0
                while True:
                    k = code.find(a, start)
                    if k < 0:
                        break
                    # word boundary for true/false
                    if a in ("true", "false"):
                        before = code[k - 1] if k > 0 else " "
                        after = code[k + len(a)] if k + len(a) < len(code) else " "
                        if before.isalnum() or before == "_" or after.isalnum() or after == "_":
                            start = k + 1
                            continue
                    new_line = line[:k] + b + line[k + len(a):]
                    out.append((ln + 1, f"{a.strip()} -> {b.strip()}", pos + k, len(a), b))
                    start = k + 1
            # integer literal +1 (not inside identifiers, not 0x.., not floats)
            for m in re.finditer(r"(?<![\w.])(\d+)(?![\w.])", code):
                v = int(m.group(1))
                if v <= 4096:
                    out.append((ln + 1, f"{v} -> {v + 1}", pos + m.start(), len(m.group(1)), str(v + 1)))
            # float literal doubled
            for m in re.finditer(r"(?<![\w.])(\d+\.\d+)(?=(_f32)?(?![\w.]))", code):
                v = float(m.group(1))
                if v != 0.0:
                    out.append((ln + 1, f"{m.group(1)} -> {v * 2.0!r}", pos + m.start(), len(m.group(1)), repr(v * 2.0)))
            # delete a simple statement
            if re.match(r"^\s*self\.[\w.]+(\(.*\))?( = .*)?;\s*$", code) and "let " not in code:
                out.append((ln + 1, "delete statement", pos, len(line), ""))
        pos += len(line) + 1
    # constants: tweak numeric constants outside tables
    for m in re.finditer(r"^(?:pub )?const (\w+): (?:u8|u32|usize|f32) = ([\d_.]+)(?:_f32)?;", text[:end], re.M):
        lit = m.group(2)
        if "." in lit:
            try:
                v = float(lit.replace("_", ""))
            except ValueError:
                continue
            new = repr(v * 2.0)
        else:
            v = int(lit.replace("_", ""))
            new = str(v + 1)
        ln = text[:m.start(2)].count("\n") + 1
        out.append((ln, f"const {m.group(1)} {lit} -> {new}", m.start(2), len(lit), new))
    return text, out


def sh(cmd, cwd=None, env=None, timeout=1800):
    try:
        p = subprocess.run(cmd, cwd=cwd, env=env, stdout=subprocess.PIPE, stderr=subprocess.STDOUT, text=True,
                           timeout=timeout)
        return p.returncode, p.stdout
    except subprocess.TimeoutExpired:
        return 124, "timeout"


def main():
    repo, outp = sys.argv[1], sys.argv[2]
    files = None
    mx = 10 ** 9
    stride = 1
    i = 3
    while i < len(sys.argv):
        if sys.argv[i] == "--files":
            files = sys.argv[i + 1].split(",")
        elif sys.argv[i] == "--max":
            mx = int(sys.argv[i + 1])
        elif sys.argv[i] == "--stride":
            stride = int(sys.argv[i + 1])
        i += 2
    env = dict(os.environ)
    env["VERIF_REPO"] = repo
    env["VERIF_EVIDENCE_DIR"] = os.path.join(ROOT, ".work", "mutate-evidence")
    done = 0
    with open(outp, "a") as out:
        for fname, props in FILE_PROPS.items():
            if files and fname not in files:
                continue
            path = os.path.join(repo, "src", fname)
            text, muts = mutants_of(path)
            for idx, (ln, desc, off, length, repl) in enumerate(muts):
                if idx % stride != 0:
                    continue
                if done >= mx:
                    return
                done += 1
                mutated = text[:off] + repl + text[off + length:]
                open(path, "w").write(mutated)
                t0 = time.time()
                rec = {"file": fname, "line": ln, "mutation": desc}
                try:
                    rc, o = sh(["cargo", "test", "--offline", "--lib"], cwd=repo, timeout=600)
                    if rc != 0:
                        rec["result"] = "killed-by-repo-tests" if "test result: FAILED" in o else "does-not-compile"
                    else:
                        rec["result"] = "SURVIVED"
                        for p in props:
                            rc, o = sh([os.path.join(ROOT, "bin", "check"), p, "--tier", "quick"], cwd=ROOT, env=env)
                            if rc == 1:
                                tags = ""
                                for l in o.splitlines():
                                    if "flagged [" in l:
                                        tags = l.split("flagged ")[1].split(" ->")[0]
                                        break
                                rec["result"] = f"caught-by-{p}"
                                rec["tags"] = tags
                                break
                            if rc == 2:
                                rec["result"] = f"tool-error-{p}"
                                rec["detail"] = o[-300:]
                                break
                finally:
                    open(path, "w").write(text)
                rec["wall_s"] = round(time.time() - t0, 1)
                out.write(json.dumps(rec) + "\n")
                out.flush()
                print(json.dumps(rec), flush=True)


if __name__ == "__main__":
    main()
