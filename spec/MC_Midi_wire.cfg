\* byte level: framing over an alphabet of representative bytes (C06, and C04/C05 invariants under
\* arbitrary byte streams)
SPECIFICATION SpecByte
CONSTANTS
  HeldCap = 2
  AnoFalling = "edge"
  StrayOffFalling = "never"
  Notes = {}
  Vels = {}
  CcMsgs <- Cc_none
  PbMsgs <- Pb_none
  Channel = 3
  Foreign = 5
  Alphabet <- Alpha_wire
  MaxHeld = 2
  Emit = FALSE
VIEW View
CONSTRAINT Premise
INVARIANTS TypeOK Inv_C04_gate Inv_C04_held Inv_C05_imply
PROPERTIES Prop_C04_note Prop_C04_vel Prop_C05_fall Prop_C05_rise Prop_C06_status Prop_C06_complete
CHECK_DEADLOCK FALSE
