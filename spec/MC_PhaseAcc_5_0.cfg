SPECIFICATION MCSpec
CONSTANTS
  AccBits = 5
  IdxBits = 0
  Rollover = "carry"
  FracMode = "cell"
  Incs = {0, 1, 3, 16, 31, 32, 33, 64, 101}
  Emit = FALSE
CONSTRAINT Bound
INVARIANTS TypeOK Inv_drift Inv_latch Inv_split Inv_divider

CHECK_DEADLOCK FALSE
