----------------------------- MODULE Quantizer -----------------------------
(***************************************************************************)
(* 1 V/octave pitch quantizer with a user scale (src/quantizer.rs).         *)
(*                                                                          *)
(* Voltages are integers in units of 1/SU semitone (real instance:          *)
(* SU = 10^6, i.e. 1/12 microvolt, so that note n sits exactly at n * SU    *)
(* and 10 V = 1.2 * 10^8).  Notes are 0 .. PC*(MaxOct+1)-1.                 *)
(*                                                                          *)
(* Rule is the declarative reading of C08: an allowed note lying at or less *)
(* than one semitone below the input wins (the semitone bucket of a         *)
(* chromatic quantizer), otherwise the allowed note nearest to the input.   *)
(* Convert adds C09's hysteresis: if the previous note is still allowed and *)
(* the input is inside its bucket widened by HystU on each side, keep it.   *)
(*                                                                          *)
(* Switch CacheCheck = "clamp": the code as first pinned re-validates the   *)
(* previous conversion with Note::from(note_num) = min(note_num, PC-1)      *)
(* instead of the pitch class note_num % PC.                                *)
(***************************************************************************)
EXTENDS Integers, Sequences, FiniteSets

CONSTANTS PC,          \* pitch classes per octave (12)
          MaxOct,      \* highest octave; inputs are clamped to [0, MaxOct octaves]
          SU,          \* units per semitone
          HystU,       \* hysteresis width in units (SU / 10)
          TolU,        \* tie tolerance in units (10 microvolts = 120; 0 when model checking)
          CacheCheck,  \* "pc" | "clamp"
          RuleF(_, _)  \* Rule, or a memoised copy of it (model checking)

VARIABLES allowed,     \* non-empty subset of 0..PC-1
          hist,        \* a conversion has been made
          last         \* note reported by the previous conversion

qVars == <<allowed, hist, last>>

Oct    == PC * SU
VMax   == MaxOct * Oct
Top    == PC * (MaxOct + 1) - 1        \* highest note of the search universe (131)
TopIn  == PC * MaxOct                  \* highest note whose voltage is inside the input range (120)
Volt(n) == n * SU
AbsQ(x) == IF x < 0 THEN -x ELSE x
ClampNote(k) == IF k > PC - 1 THEN PC - 1 ELSE k
Clamp(u) == IF u < 0 THEN 0 ELSE IF u > VMax THEN VMax ELSE u

\* ---- C08: the memoryless rule ------------------------------------------------------------------
Cands(A, top)     == {n \in 0..top : (n % PC) \in A}
Bucket(A, top, u) == {n \in Cands(A, top) : Volt(n) <= u /\ u < Volt(n) + SU}
Nearest(A, top, u) == {n \in Cands(A, top) : \A m \in Cands(A, top) : AbsQ(Volt(n) - u) <= AbsQ(Volt(m) - u)}
RuleSet(A, top, u) == IF Bucket(A, top, u) # {} THEN Bucket(A, top, u) ELSE Nearest(A, top, u)
Lowest(S) == CHOOSE n \in S : \A m \in S : n <= m
Rule(A, u) == Lowest(RuleSet(A, Top, u))

\* n is an admissible answer for input u when ties within TolU may go either way:
\* (a) n's own bucket contains some u' within TolU of u, or
\* (b) n is nearest (within 2*TolU) and no other note's bucket contains every u' within TolU of u
AcceptTopT(A, top, u, n, tol) ==
  /\ n \in Cands(A, top)
  /\ \/ (Volt(n) <= u + tol /\ u - tol < Volt(n) + SU)
     \/ /\ \A m \in Cands(A, top) : AbsQ(Volt(n) - u) <= AbsQ(Volt(m) - u) + 2 * tol
        /\ ~\E m \in Cands(A, top) : m # n /\ Volt(m) + tol <= u /\ u + tol < Volt(m) + SU
AcceptTop(A, top, u, n) == AcceptTopT(A, top, u, n, TolU)
\* the statement is silent on whether notes above the input range take part: accept both readings
AcceptT(A, u, n, tol) == AcceptTopT(A, Top, u, n, tol) \/ AcceptTopT(A, TopIn, u, n, tol)
Accept(A, u, n) == AcceptT(A, u, n, TolU)

\* ---- C09: hysteresis ---------------------------------------------------------------------------
LastValid == hist /\ (IF CacheCheck = "pc" THEN last % PC ELSE ClampNote(last)) \in allowed
InWindow(n, u, slack) == Volt(n) - HystU - slack < u /\ u < Volt(n) + SU + HystU + slack

\* convert(v): ur = the raw input, clamped only for the memoryless search
Keeps(ur)  == LastValid /\ InWindow(last, ur, 0)
Result(ur) == IF Keeps(ur) THEN last ELSE RuleF(allowed, Clamp(ur))

Convert(ur) ==
  /\ last' = Result(ur)
  /\ hist' = TRUE
  /\ allowed' = allowed

\* admissible results with tolerance (trace validation): keeping is admissible if the input is inside
\* the window widened by TolU; the memoryless answer is admissible unless the input is inside the
\* window narrowed by TolU
ConvertOK(ur, n) ==
  \/ LastValid /\ InWindow(last, ur, TolU) /\ n = last
  \/ ~(LastValid /\ InWindow(last, ur, -TolU)) /\ Accept(allowed, Clamp(ur), n)

\* ---- scale edits -------------------------------------------------------------------------------
SeqSet(s) == {ClampNote(s[i]) : i \in 1..Len(s)}
Allow(s)  == allowed' = allowed \cup SeqSet(s) /\ UNCHANGED <<hist, last>>
Forbid(s) ==
  /\ allowed' = IF allowed \ SeqSet(s) = {} THEN {ClampNote(s[Len(s)])} ELSE allowed \ SeqSet(s)
  /\ UNCHANGED <<hist, last>>

QInit == allowed = 0..(PC - 1) /\ hist = FALSE /\ last = 0

\* ---- properties --------------------------------------------------------------------------------
Inv_C07_nonempty == allowed # {} /\ allowed \subseteq 0..(PC - 1)
=============================================================================
