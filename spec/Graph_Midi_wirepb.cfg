\* every-transition replay graph, byte level
\* arbitrary byte streams)
SPECIFICATION SpecByte
CONSTANTS
  HeldCap = 2
  AnoFalling = "edge"
  StrayOffFalling = "never"
  Notes = {}
  Vels = {}
  CcMsgs <- Cc_none
  PbMsgs <- Pb_none
  Channel = 3
  Foreign = 5
  Alphabet <- Alpha_pb
  MaxHeld = 2
  Emit = TRUE
VIEW View
CONSTRAINT Premise
CHECK_DEADLOCK FALSE
