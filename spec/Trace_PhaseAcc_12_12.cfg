SPECIFICATION TSpec
CONSTANTS
  AccBits = 12
  IdxBits = 12
  Rollover = "carry"
  FracMode = "cell"
INVARIANT TInv
POSTCONDITION Report
CHECK_DEADLOCK FALSE
