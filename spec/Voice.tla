-------------------------------- MODULE Voice --------------------------------
(***************************************************************************)
(* A monophonic voice the way the crate is meant to be wired (growth        *)
(* beyond the listed properties): the MIDI receiver's gate edges drive the  *)
(* envelope.  One control-loop iteration = "Service":                       *)
(*     if mr.rising_gate()  { adsr.gate_on()  }                             *)
(*     if mr.falling_gate() { adsr.gate_off() }                             *)
(*     adsr.tick()                                                          *)
(* modelled as two steps (Poll, then Tick) under a program counter.         *)
(*                                                                          *)
(* System-level consequences of C05 + C02 + C17, checked by TLC:            *)
(*   - once MIDI traffic stops with no key held, the envelope reaches rest  *)
(*     (whatever released the last key: note-off, velocity-0 note-on or     *)
(*     All-Notes-Off);                                                      *)
(*   - once traffic stops with a key held, the envelope reaches sustain;    *)
(*   - the envelope never sounds a release while the gate has been high     *)
(*     and serviced.                                                        *)
(* With AnoFalling = "cleared" (the code as first pinned) TLC finds the     *)
(* envelope stuck in sustain after All-Notes-Off.                           *)
(***************************************************************************)
EXTENDS Midi, Adsr

VARIABLES pc,      \* "poll" | "tick": where the control loop is
          kind     \* ghost: "midi" | "svc": what the last step was

voiceAll == <<vars, adsrVars, pc, kind>>

MidiStep(s, a, b) ==
  /\ Msg(s, a, b)
  /\ UNCHANGED <<adsrVars, pc>>
  /\ kind' = "midi"

\* rising_gate() and falling_gate() are both polled (self-clearing), then the gate event is applied
Poll ==
  /\ pc = "poll"
  /\ rise' = FALSE /\ fall' = FALSE
  /\ UNCHANGED <<wireVars, chan, held, gate, note, vel, over, outs, stamp, nm, ctlVars, modeVars>>
  /\ IF rise THEN GateOn ELSE IF fall THEN GateOff ELSE UNCHANGED adsrVars
  /\ pc' = "tick" /\ kind' = "svc"

Service ==
  /\ pc = "tick"
  /\ Tick
  /\ UNCHANGED vars
  /\ pc' = "poll" /\ kind' = "svc"

VInit(c, i0) == InitFor(c) /\ AdsrInit(i0) /\ pc = "poll" /\ kind = "svc"

\* ---- properties ---------------------------------------------------------------------------------
TrafficStops == <>[](kind = "svc")
Live_release == TrafficStops => <>[](gate \/ phase = "rest")
Live_sustain == TrafficStops => <>[](~gate \/ phase = "sustain")
\* after the loop has serviced the edges (pc = "poll" and no unread edge), envelope and gate agree
Inv_agree == (pc = "poll" /\ ~rise /\ ~fall) =>
                /\ (gate => phase \in {"attack", "decay", "sustain"})
                /\ (~gate => phase \in {"release", "rest"})
=============================================================================
