----------------------------- MODULE Trace_Glide -----------------------------
(***************************************************************************)
(* Implementation -> specification trace validation for the glide           *)
(* processor (C13, C14).  The filter response is specified as an ENVELOPE   *)
(* (hull, monotone approach, coverage windows), never as a formula, so any  *)
(* stable one-pole realisation conforms.  Values are Q24 (inputs are chosen *)
(* on a dyadic grid, exact in Q24); times are microseconds.                 *)
(*                                                                          *)
(* Events:                                                                  *)
(*  {"op":"new","fs":Hz}                          GlideProcessor::new(fs)   *)
(*  {"op":"st","tk":K(t),"us":floor(t*1e6)}       set_time(t)               *)
(*  {"op":"p","xq":Q(x),"yq":Q(y),"yk":K(y)}      y = process(x)            *)
(*  {"op":"ps","n":k,"xq":Q(x),"yq":Q(last y),"ymin":Q,"ymax":Q}            *)
(*        k further samples with the SAME input as the previous event,      *)
(*        not logged one by one (min / max / last output of the stretch)    *)
(***************************************************************************)
EXTENDS Glide, TraceLib

VARIABLES l, dead, fs,
          nEff,     \* samples per time in effect (t_eff * fs), >= 2
          from,     \* output at the moment the input last changed
          k,        \* samples processed since the input last changed
          quiet     \* no set_time since the input last changed, and the output had settled on the
                    \* previous input when it changed (the coverage statements are about steps from rest)

tvars == <<gVars, l, dead, fs, nEff, from, k, quiet>>

e == Rec[l]

UlpQ(m) == IF m < 16777216 THEN 1 ELSE IF m < 33554432 THEN 2 ELSE IF m < 67108864 THEN 4
           ELSE IF m < 134217728 THEN 8 ELSE IF m < 268435456 THEN 16 ELSE 64
Max3(a, b, c) == Max2(a, Max2(b, c))
Min3(a, b, c) == Min2(a, Min2(b, c))

\* samples per time t (microseconds, <= 10^7) at sample rate fs (Hz, <= 192000), without leaving 32 bits
SamplesPer(t) == Max2(2, ((t \div 1000) * fs + ((t % 1000) * fs) \div 1000) \div 1000)
FastUs == 2000000 \div fs

Eps(a, b, c, d) == 4 * UlpQ(Max2(Max2(Abs(a), Abs(b)), Max2(Abs(c), Abs(d))))
EpsRes(v) == UlpQ(Max3(Abs(lo), Abs(hi), Abs(v))) * (nEff \div 2 + 4)

Advance(tags) ==
  /\ l' = l + 1
  /\ dead' = dead \cup PropsOf(tags)
  /\ Flag(l, LiveTags(tags, dead))

\* coverage of the current step after kk samples, output yy
CoverageTags(kk, yy) ==
  LET stp == Abs(x' - from')
      res == Abs(x' - yy)
      er  == EpsRes(yy)
  IN IF ~quiet' \/ stp = 0 THEN {}
     ELSE (IF nEff >= 100 /\ kk >= nEff + 1 /\ res > stp \div 200 + er THEN {<<"C14", "not-reached-in-t">>} ELSE {})
     \cup (IF nEff >= 100 /\ kk >= nEff \div 10 + 2 /\ res > (stp \div 10) * 6 + 6 + er THEN {<<"C14", "too-slow-at-tenth">>} ELSE {})
     \cup (IF nEff >= 100 /\ kk >= 1 /\ kk <= nEff \div 10 - 2 /\ res + er < (stp \div 100) * 45 THEN {<<"C14", "too-fast-at-tenth">>} ELSE {})
     \cup (IF nEff = 2 /\ cached # -1 /\ cached < FastUs /\ kk >= 8 /\ res > stp \div 1000 + er + 8 THEN {<<"C14", "fastest-not-settled">>} ELSE {})
     \* three times the glide time (6 pi time constants) plus a few samples for very short times
     \cup (IF kk >= 3 * nEff + 24 /\ res > stp \div 1000000 + er + 8 THEN {<<"C13", "not-settled">>} ELSE {})

TMeta == e.op = "meta" /\ UNCHANGED <<gVars, dead, fs, nEff, from, k, quiet>> /\ l' = l + 1

TNew ==
  /\ e.op = "new"
  /\ cached' = -1 /\ eff' = 0 /\ pole' = 0 /\ y' = 0 /\ x' = 0 /\ lo' = 0 /\ hi' = 0
  /\ fs' = e.fs /\ nEff' = 2 /\ from' = 0 /\ k' = 0 /\ quiet' = FALSE
  /\ l' = l + 1 /\ dead' = {}

TSetTime ==
  /\ e.op = "st"
  \* an honoured change of the time starts a new segment: what is left of the distance to the (held)
  \* input is now covered at the new rate; the coverage / settling statements apply to it from here on
  /\ IF Honoured(e.us)
       THEN /\ cached' = e.us
            /\ nEff' = SamplesPer(IF e.us > TSlow THEN TSlow ELSE e.us)
            /\ quiet' = TRUE /\ from' = y /\ k' = 0
       ELSE UNCHANGED <<cached, nEff, quiet, from, k>>
  /\ UNCHANGED <<eff, pole, y, x, lo, hi, fs>>
  /\ Advance({})

TProcess ==
  /\ e.op = "p"
  /\ LET v    == e.xq
         held == v = x
         ep   == Eps(v, x, y, e.yq)
     IN /\ x' = v /\ y' = (IF e.yq = NaNKey THEN y ELSE e.yq)
        /\ lo' = Min2(lo, v) /\ hi' = Max2(hi, v)
        /\ from' = IF held THEN from ELSE y
        /\ k' = IF held THEN k + 1 ELSE 1
        /\ quiet' = IF held THEN quiet ELSE (Abs(x - y) <= EpsRes(y) + 16)
        /\ UNCHANGED <<cached, eff, pole, fs, nEff>>
        /\ Advance(
             IF e.yq = NaNKey THEN {<<"C13", "nan">>} ELSE
                  (IF e.yq < Min3(v, x, y) - ep \/ e.yq > Max3(v, x, y) + ep THEN {<<"C13", "one-step-hull">>} ELSE {})
             \cup (IF e.yq < lo' - EpsRes(e.yq) \/ e.yq > hi' + EpsRes(e.yq) THEN {<<"C13", "range">>} ELSE {})
             \cup (IF held /\ Abs(v - e.yq) > Abs(v - y) + ep THEN {<<"C13", "retreats">>} ELSE {})
             \cup (IF held /\ ((y > v /\ e.yq < v) \/ (y < v /\ e.yq > v)) /\ Abs(v - e.yq) > EpsRes(e.yq)
                     THEN {<<"C13", "overshoot">>} ELSE {})
             \cup CoverageTags(k', e.yq))

TStretch ==
  /\ e.op = "ps"
  /\ LET v  == x
         \* many steps: the accumulated band (stall of the f32 recursion + DC gain error of the rounded
         \* coefficients), not the one-step rounding
         ep == Eps(v, e.ymin, y, e.ymax) + EpsRes(e.yq)
     IN /\ x' = x /\ y' = (IF e.yq = NaNKey THEN y ELSE e.yq)
        /\ UNCHANGED <<lo, hi, from, quiet, cached, eff, pole, fs, nEff>>
        /\ k' = k + e.n
        /\ Advance(
             IF e.xq # x THEN {<<"C17", "harness-stretch-changes-input">>} ELSE
             IF e.yq = NaNKey THEN {<<"C13", "nan">>} ELSE
                  (IF e.ymin < Min2(v, y) - ep \/ e.ymax > Max2(v, y) + ep THEN {<<"C13", "range">>} ELSE {})
             \cup (IF Abs(v - e.yq) > Abs(v - y) + ep THEN {<<"C13", "retreats">>} ELSE {})
             \cup (IF (y >= v /\ v - e.ymin > EpsRes(e.yq)) \/ (y <= v /\ e.ymax - v > EpsRes(e.yq))
                     THEN {<<"C13", "overshoot">>} ELSE {})
             \cup CoverageTags(k', e.yq))

\* a panic is an event no action accepts: C17, and the property about the call that panicked
TPanic == /\ e.op = "panic" /\ UNCHANGED <<gVars, fs, nEff, from, k, quiet>>
          /\ Advance({<<"C17", "panic">>} \cup (IF Has(e, "where") /\ e.where = "process" THEN {<<"C13", "panic-in-process">>}
                                                ELSE {<<"C14", "panic-in-set-time">>, <<"C13", "panic-in-set-time">>}))

TNext == l <= NRec /\ (TMeta \/ TNew \/ TSetTime \/ TProcess \/ TStretch \/ TPanic)
TInit == /\ GInit /\ l = 1 /\ dead = {} /\ fs = 1000 /\ nEff = 2 /\ from = 0 /\ k = 0 /\ quiet = FALSE
         /\ FlagInit
TSpec == TInit /\ [][TNext]_tvars
=============================================================================
