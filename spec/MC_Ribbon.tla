------------------------------ MODULE MC_Ribbon ------------------------------
(***************************************************************************)
(* Bounded instances of Ribbon.tla: small buffers, three sample values (two *)
(* in range, one out of range), edge polls at any position.                 *)
(***************************************************************************)
EXTENDS Ribbon, TLC, Json

CONSTANTS Cfgs,      \* set of configurations to explore (one initial state each)
          Samples,   \* sample values
          Emit

VARIABLES kind,      \* ghost: "new" | "poll" | "jp" | "jr"
          streak,    \* ghost: length of the current unbroken run of in-range samples (capped)
          tail       \* ghost: the last cap samples of the current unbroken run

mcVars == <<rVars, kind, streak, tail>>

C_a == [ig |-> 0, dc |-> 0, cap |-> 2, thr |-> 8]     \* = 100 Hz
C_b == [ig |-> 0, dc |-> 1, cap |-> 3, thr |-> 8]
C_c == [ig |-> 1, dc |-> 1, cap |-> 3, thr |-> 8]
C_d == [ig |-> 2, dc |-> 1, cap |-> 4, thr |-> 8]
C_e == [ig |-> 0, dc |-> 1, cap |-> 9, thr |-> 8]     \* = 500 Hz
CfgsSmall == {C_a, C_b, C_c, C_d}
CfgsReal  == {C_a, C_e}
Cfgs100   == {C_a}
Cfgs500   == {C_e}

LastN(s, n) == IF Len(s) > n THEN SubSeq(s, Len(s) - n + 1, Len(s)) ELSE s

Proj == <<pressing, val>>
Lbl(op) == Emit => PrintT(<<"EDGE", ToJson(<<rVars, op, rVars', Proj'>>)>>)

TPoll(x) ==
  /\ Poll(x) /\ kind' = "poll"
  /\ streak' = IF InRange(x) THEN (IF streak < Need THEN streak + 1 ELSE streak) ELSE 0
  /\ tail' = IF InRange(x) THEN LastN(Append(tail, x), cfg.cap) ELSE <<>>
  /\ Lbl([op |-> "p", x |-> x])
TJP == PollJP /\ kind' = "jp" /\ UNCHANGED <<streak, tail>> /\ Lbl([op |-> "jp", r |-> jp])
TJR == PollJR /\ kind' = "jr" /\ UNCHANGED <<streak, tail>> /\ Lbl([op |-> "jr", r |-> jr])

MCInit == /\ \E c \in Cfgs : RInit(c)
          /\ kind = "new" /\ streak = 0 /\ tail = <<>>
          /\ (Emit => PrintT(<<"INIT", ToJson(<<rVars, Proj>>)>>))
MCNext == (\E x \in Samples : TPoll(x)) \/ TJP \/ TJR
MCSpec == MCInit /\ [][MCNext]_mcVars

\* ---- C15 ----
Inv_C15_streak == pressing <=> streak >= Need
Prop_C15_edges ==
  [][ /\ (~pressing /\ pressing') => jp'
      /\ (pressing /\ ~pressing') => jr'
      /\ (~jp /\ jp') => (~pressing /\ pressing')
      /\ (~jr /\ jr') => (pressing /\ ~pressing')
      /\ (jp /\ ~jp') => kind' = "jp"
      /\ (jr /\ ~jr') => kind' = "jr"
      /\ (kind' = "jp" => ~jp') /\ (kind' = "jr" => ~jr') ]_mcVars
\* ---- C16 ----
Inv_C16_current == pressing => (win = tail /\ val = <<SumSeq(SubSeq(tail, 1, Take)), Take>>)
Prop_C16_retain == [][~pressing' => val' = val]_mcVars
=============================================================================
