SPECIFICATION TSpec
CONSTANTS
  AccBits = 4
  IdxBits = 2
  Rollover = "carry"
  FracMode = "cell"
INVARIANT TInv
POSTCONDITION Report
CHECK_DEADLOCK FALSE
