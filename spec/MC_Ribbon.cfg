SPECIFICATION MCSpec
CONSTANTS
  ResetOnTap = "always"
  Cfgs <- CfgsSmall
  Samples = {1, 5, 9}
  Emit = FALSE
INVARIANTS Inv_C15_press Inv_C15_window Inv_C15_streak Inv_C16_sum Inv_C16_partial Inv_C16_current
PROPERTIES Prop_C15_edges Prop_C16_retain
CHECK_DEADLOCK FALSE
