------------------------------ MODULE MC_Adsr ------------------------------
(***************************************************************************)
(* Bounded instances of Adsr.tla: 5/6-bit accumulator, 4 table cells,       *)
(* Q = 16/32.                                                               *)
(* All interleavings of gate_on / gate_off / tick / set_input.              *)
(***************************************************************************)
EXTENDS Adsr, TLC, Json

CONSTANTS StepsA, StepsD, StepsR, Sustains, TabShape, Emit

\* two monotone table shapes with the required end points
AttLin == [i \in 0..4 |-> (Q \div 4) * i]
DecLin == [i \in 0..4 |-> Q - (Q \div 4) * i]
\* convex shapes, in sixteenths of full scale
AttCvx == [i \in 0..4 |-> (Q \div 16) * (CASE i = 0 -> 0 [] i = 1 -> 7 [] i = 2 -> 12 [] i = 3 -> 15 [] i = 4 -> 16)]
DecCvx == [i \in 0..4 |-> (Q \div 16) * (CASE i = 0 -> 16 [] i = 1 -> 6 [] i = 2 -> 2 [] i = 3 -> 1 [] i = 4 -> 0)]

VARIABLES kind,   \* ghost: kind of the last call
          cont,   \* ghost: no gate / sustain event since the previous tick
          prog    \* ghost: sum of the increments applied since the current phase began (capped)

mcVars == <<adsrVars, kind, cont, prog>>

Cap == 4 * M
Proj == <<phase, acc, val, step.a, step.d, step.r, S>>

MCInit == /\ AdsrInit(CHOOSE i \in StepsA : \A j \in StepsA : i <= j) /\ kind = "new" /\ cont = FALSE /\ prog = 0
          /\ (Emit => PrintT(<<"INIT", ToJson(<<adsrVars, Proj>>)>>))

TTick ==
  /\ Tick /\ kind' = "tick" /\ cont' = TRUE
  /\ prog' = IF phase' # phase THEN 0
             ELSE IF phase \in Timed THEN (IF prog + StepOf(phase) > Cap THEN Cap ELSE prog + StepOf(phase))
             ELSE 0
TOn  == GateOn  /\ kind' = "on"  /\ cont' = (cont /\ phase = "attack") /\ prog' = (IF phase = "attack" THEN prog ELSE 0)
TOff == GateOff /\ kind' = "off" /\ cont' = (cont /\ phase \in {"release", "rest"})
                /\ prog' = (IF phase \in {"release", "rest"} THEN prog ELSE 0)
TSetA == \E i \in StepsA : SetStep("a", i) /\ kind' = "set" /\ UNCHANGED <<cont, prog>>
TSetD == \E i \in StepsD : SetStep("d", i) /\ kind' = "set" /\ UNCHANGED <<cont, prog>>
TSetR == \E i \in StepsR : SetStep("r", i) /\ kind' = "set" /\ UNCHANGED <<cont, prog>>
TSetS == \E s \in Sustains : SetSustain(s) /\ kind' = "set" /\ cont' = FALSE /\ UNCHANGED prog

Lbl(op) == Emit => PrintT(<<"EDGE", ToJson(<<adsrVars, op, adsrVars', Proj'>>)>>)

MCNext ==
  \/ TTick /\ Lbl([op |-> "tick"])
  \/ TOn   /\ Lbl([op |-> "on"])
  \/ TOff  /\ Lbl([op |-> "off"])
  \/ \E i \in StepsA : SetStep("a", i) /\ kind' = "set" /\ UNCHANGED <<cont, prog>> /\ Lbl([op |-> "set", w |-> "a", i |-> i])
  \/ \E i \in StepsD : SetStep("d", i) /\ kind' = "set" /\ UNCHANGED <<cont, prog>> /\ Lbl([op |-> "set", w |-> "d", i |-> i])
  \/ \E i \in StepsR : SetStep("r", i) /\ kind' = "set" /\ UNCHANGED <<cont, prog>> /\ Lbl([op |-> "set", w |-> "r", i |-> i])
  \/ \E s \in Sustains : SetSustain(s) /\ kind' = "set" /\ cont' = FALSE /\ UNCHANGED prog /\ Lbl([op |-> "sus", s |-> s])

MCSpec == MCInit /\ [][MCNext]_mcVars /\ WF_mcVars(TTick)
MCView == <<adsrVars, cont, prog>>
GView == adsrVars          \* for graph emission: the ghosts do not matter

TypeOK ==
  /\ phase \in {"rest", "attack", "decay", "sustain", "release"}
  /\ acc \in 0..(M - 1) /\ val \in 0..Q /\ lvlOn \in 0..Q /\ lvlOff \in 0..Q /\ S \in 0..Q

\* ---- C01 ----------------------------------------------------------------------------------
Prop_C01_ends     == [][kind' = "tick" => C01_ends]_mcVars
Prop_C01_monotone == [][kind' = "tick" => C01_monotone(cont)]_mcVars

\* ---- C02 ----------------------------------------------------------------------------------
Prop_C02_order == [][C02_order(kind')]_mcVars
\* a timed phase ends on the first tick at which the increments applied add up to the counter
\* range: never before (prog < M while inside), never later (inside => prog < M)
Inv_C02_duration == phase \in Timed => (prog < M /\ acc = prog)
Prop_C02_exit == [][(kind' = "tick" /\ phase \in Timed /\ phase' # phase) => prog + StepOf(phase) >= M]_mcVars

\* ---- C03 ----------------------------------------------------------------------------------
MaxCell(tab) == CHOOSE s \in 0..Q : (\A i \in 0..(Size - 1) : AbsD(tab[i + 1] - tab[i]) <= s)
                                     /\ (\E j \in 0..(Size - 1) : AbsD(tab[j + 1] - tab[j]) = s)
SlopeA == MaxCell(AttTab)
SlopeD == MaxCell(DecTab)
\* one tick of increment i covers i/C cells; the curve moves by at most slope * cells * span / Q
Bound(slope, span, i) == (slope * span * (IF i > M THEN M ELSE i)) \div (C * Q) + 3
StepBound(p, i) == CASE p = "attack"  -> Bound(SlopeA, Q - lvlOn, i)
                     [] p = "decay"   -> Bound(SlopeD, Q - S, i)
                     [] p = "release" -> Bound(SlopeD, lvlOff, i)
                     [] OTHER -> 0
\* the sustain level may have been changed since the previous tick: |val' - val| is measured against
\* the output the new sustain level would have given (the caller's own change is not a click)
Prop_C03_step ==
  [][ (kind' = "tick" /\ cont) =>
        AbsD(val' - val) <= (IF phase \in Timed THEN StepBound(phase, StepOf(phase)) ELSE 0)
                          + (IF phase' \in Timed /\ phase' # phase THEN StepBound(phase', 0) ELSE 0) ]_mcVars

\* ---- C17: every attack reaches sustain, every release reaches rest (fair ticking), provided gate
\* events eventually stop arriving (a gate event legitimately restarts an attack / a release)
Quiet == <>[](kind # "on" /\ kind # "off")
Live_C17_attack  == Quiet => ((phase = "attack") ~> (phase \in {"sustain", "release", "rest"}))
Live_C17_release == Quiet => ((phase = "release") ~> (phase \in {"rest", "attack"}))
Live_C17_decay   == Quiet => ((phase = "decay") ~> (phase \in {"sustain", "release", "rest", "attack"}))
=============================================================================
