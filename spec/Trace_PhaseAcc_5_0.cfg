SPECIFICATION TSpec
CONSTANTS
  AccBits = 5
  IdxBits = 0
  Rollover = "carry"
  FracMode = "cell"
INVARIANT TInv
POSTCONDITION Report
CHECK_DEADLOCK FALSE
