------------------------------ MODULE MC_Utils ------------------------------
EXTENDS Utils, TLC
ASSUME Lemma_ilog(0..4100)
ASSUME Lemma_ilog_pow(30)
ASSUME Lemma_lerp(-9..9, 8)
ASSUME Lemma_lerp({-64, -45, 0, 45, 64}, 16)
ASSUME \A k \in -50..50 : FabsKey(k) >= 0 /\ FabsKey(FabsKey(k)) = FabsKey(k) /\ FabsKey(-k) = FabsKey(k)
VARIABLE x
Init == x = 0
Next == x' = 1 - x
Spec == Init /\ [][Next]_x
=============================================================================
