SPECIFICATION MCSpec
CONSTANTS
  Dead = 5
  TFast = 2
  TSlow = 1000
  Design = "one-pole"
  Times = {0, 1, 2, 3, 7, 8, 9, 14, 50, 1000, 1004, 1006, 1200}
  Inputs <- InputSet
  SettleBound = 12
INVARIANTS Inv_C13_hull Inv_C13_settles Inv_C14_effective Inv_C14_track
PROPERTIES Prop_C13_monotone Prop_C14_honoured Prop_C14_ignored
CHECK_DEADLOCK FALSE
