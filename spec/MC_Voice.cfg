SPECIFICATION MCSpec
CONSTANTS
  HeldCap = 2
  AnoFalling = "edge"
  StrayOffFalling = "never"
  AccBits = 3
  IdxBits = 1
  QBits = 2
  Rollover = "carry"
  FracMode = "cell"
  AttTab <- AttT
  DecTab <- DecT
  Notes = {60, 62}
  Channel = 0
  StepA = 3
VIEW VView
CONSTRAINT Premise
INVARIANT Inv_agree
PROPERTIES Live_release Live_sustain
CHECK_DEADLOCK FALSE
