SPECIFICATION TSpec
CONSTANTS
  AccBits = 24
  IdxBits = 10
  Rollover = "carry"
  FracMode = "cell"
  SineWrap = "size"
  SinTab <- SinFn
INVARIANT TInv
POSTCONDITION Report
CHECK_DEADLOCK FALSE
