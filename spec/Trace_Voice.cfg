SPECIFICATION TSpec
CONSTANTS
  HeldCap = 32
  AnoFalling = "edge"
  StrayOffFalling = "never"
  AccBits = 24
  IdxBits = 10
  QBits = 24
  Rollover = "carry"
  FracMode = "cell"
  AttTab <- AttFn
  DecTab <- DecFn
POSTCONDITION Report
CHECK_DEADLOCK FALSE
