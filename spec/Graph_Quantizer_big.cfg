\* every-transition replay graph for the real Quantizer: the real constants (12 pitch classes, 0 .. 10 V,
\* hysteresis of a tenth of a semitone) on a grid of 1/240 V; see G2Inputs / G2Scales in MC_Quantizer.tla
SPECIFICATION MCSpec
CONSTANTS
  PC = 12
  MaxOct = 10
  SU = 20
  HystU = 2
  TolU = 0
  CacheCheck = "pc"
  RuleF <- G2RuleMemo
  Inputs <- G2Inputs
  AllowSeqs <- G2AllowSeqs
  ForbidSeqs <- G2ForbidSeqs
  Scales <- G2Scales
  RuleDom <- G2RuleDom
  Emit = TRUE
VIEW qVars
CHECK_DEADLOCK FALSE
