------------------------------ MODULE MC_Params ------------------------------
EXTENDS Params, TLC
VARIABLE dummy
D == -40..40
ASSUME \A lo \in -10..10 : \A hi \in lo..12 :
         /\ Lemma_range(D, lo, hi) /\ Lemma_identity(D, lo, hi) /\ Lemma_nearest(D, lo, hi)
         /\ Lemma_idempotent(D, lo, hi) /\ Lemma_monotone(D, lo, hi)
ASSUME \A n \in 0..255 : NoteClamp(n) \in 0..11 /\ (n <= 11 => NoteClamp(n) = n) /\ ChanClamp(n) \in 0..15
                          /\ (n <= 15 => ChanClamp(n) = n)
Init == dummy = 0
Next == dummy' = 1 - dummy
Spec == Init /\ [][Next]_dummy
=============================================================================
