---------------------------- MODULE MC_PhaseAcc ----------------------------
(***************************************************************************)
(* Bounded instance of the phase accumulator on its own (the generic       *)
(* PhaseAccumulator<TOTAL_NUM_BITS, NUM_INDEX_BITS> of the crate, at widths *)
(* small enough for the REAL type to be instantiated with the same widths): *)
(* every transition TLC finds is replayed on PhaseAccumulator<4,2>, <6,3>,  *)
(* <5,5> (no fraction bits) and <5,0> (no index bits).                      *)
(*                                                                          *)
(* Ghosts: a0/k  - position and ticks since the phase was last positioned   *)
(*                 or the increment changed (no drift: acc is a function of *)
(*                 them)                                                    *)
(*         total - carries since then, counted from the latch by taking it  *)
(*                 after every tick (a frequency divider); every = the      *)
(*                 latch was clear before each of those ticks               *)
(*         owed  - carries out of the counter since the latch was last      *)
(*                 cleared, computed arithmetically (not by the latch rule) *)
(***************************************************************************)
EXTENDS PhaseAcc, TLC, Json

CONSTANTS Incs,   \* increments the model may select (some beyond the counter range)
          Emit    \* BOOLEAN: print every transition (graph replay)

VARIABLES a0, k, owed, total, every
mcVars == <<paVars, a0, k, owed, total, every>>

GView == <<acc, inc, rolled>>
Proj  == <<acc, Index, Frac, rolled>>
Lbl(op) == Emit => PrintT(<<"EDGE", ToJson(<<GView, op, GView', <<acc', acc' \div C, acc' % C, rolled'>>>>)>>)

MCInit == PA_Init /\ a0 = 0 /\ k = 0 /\ owed = 0 /\ total = 0 /\ every = TRUE
          /\ (Emit => PrintT(<<"INIT", ToJson(<<GView, Proj>>)>>))

MCNext ==
  \/ PA_Tick /\ k' = k + 1 /\ a0' = a0 /\ owed' = owed + (acc + inc) \div M
             /\ total' = total + (IF rolled' /\ ~rolled THEN 1 ELSE 0) /\ every' = (every /\ ~rolled) /\ Lbl([op |-> "tick"])
  \/ \E i \in Incs : PA_SetInc(i) /\ a0' = acc /\ k' = 0 /\ owed' = owed /\ total' = 0 /\ every' = TRUE /\ Lbl([op |-> "freq", i |-> i])
  \* set_phase scales by the mask 2^AccBits - 1, so the last counter value is out of its reach
  \/ \E a \in 0..(M - 2) : PA_SetPhase(a) /\ a0' = a /\ k' = 0 /\ owed' = 0 /\ total' = 0 /\ every' = TRUE /\ Lbl([op |-> "phase", a |-> a])
  \/ PA_Reset /\ a0' = 0 /\ k' = 0 /\ owed' = 0 /\ total' = 0 /\ every' = TRUE /\ Lbl([op |-> "reset"])
  \/ PA_TakeRolled /\ owed' = 0 /\ UNCHANGED <<a0, k, total, every>> /\ Lbl([op |-> "take", was |-> rolled])
MCSpec == MCInit /\ [][MCNext]_mcVars

Bound == k <= 2 * M /\ owed <= 3

TypeOK        == acc \in 0..(M - 1) /\ rolled \in BOOLEAN
Inv_drift     == acc = (a0 + k * inc) % M
\* the latch is set exactly when at least one carry happened since it was cleared
Inv_latch     == rolled <=> owed > 0
Inv_split     == Index \in 0..(Size - 1) /\ Frac \in 0..(C - 1) /\ Index * C + Frac = acc

\* ---- the abstraction used by Trace_PhaseAcc: an increment beyond the counter range behaves like
\* ---- its residue plus one full range (so real 32-bit increments need not be represented)
Rep(i) == (i % M) + (IF i >= M THEN M ELSE 0)
Lemma_rep == \A a \in 0..(M - 1) : \A i \in 0..(4 * M + 3) :
               /\ (a + i) % M = (a + Rep(i)) % M
               /\ (a + i >= M) <=> (a + Rep(i) >= M)
ASSUME Lemma_rep

\* ---- rollover as a frequency divider: a caller that takes the latch after every tick counts, with an
\* ---- increment below the counter range, exactly the whole cycles elapsed
Inv_divider == (inc < M /\ every) => total = (a0 + k * inc) \div M
=============================================================================
