\* message level: note traffic, polls, mode switches (C04, C05)
SPECIFICATION SpecMsg
CONSTANTS
  HeldCap = 5
  AnoFalling = "edge"
  StrayOffFalling = "never"
  Notes = {60, 62, 64, 67}
  Vels = {0, 1, 127}
  CcMsgs <- Cc_ano
  PbMsgs <- Pb_none
  Channel = 3
  Foreign = 5
  Alphabet = {}
  MaxHeld = 5
  Emit = FALSE
VIEW View
CONSTRAINT Premise
INVARIANTS TypeOK Inv_C04_gate Inv_C04_held Inv_C05_imply
PROPERTIES Prop_C04_note Prop_C04_vel Prop_C05_fall Prop_C05_rise
CHECK_DEADLOCK FALSE
