\* liveness (C17): under weak fairness of Tick every attack reaches sustain and every release
\* reaches rest once gate events stop arriving; no state constraint (the model is finite)
SPECIFICATION MCSpec
CONSTANTS
  AccBits = 4
  IdxBits = 2
  QBits = 2
  Rollover = "carry"
  FracMode = "cell"
  AttTab <- AttLin
  DecTab <- DecLin
  StepsA = {1, 16, 32, 24}
  StepsD = {3}
  StepsR = {5, 16}
  Sustains = {2}
  TabShape = "linear"
  Emit = FALSE
PROPERTIES Live_C17_attack Live_C17_release Live_C17_decay
CHECK_DEADLOCK FALSE
