SPECIFICATION TSpec
CONSTANTS
  AccBits = 24
  IdxBits = 8
  Rollover = "carry"
  FracMode = "cell"
INVARIANT TInv
POSTCONDITION Report
CHECK_DEADLOCK FALSE
