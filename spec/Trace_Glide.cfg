SPECIFICATION TSpec
CONSTANTS
  Dead = 50000
  TFast = 0
  TSlow = 10000000
  Design = "one-pole"
POSTCONDITION Report
CHECK_DEADLOCK FALSE
