SPECIFICATION MCSpec
CONSTANTS
  AccBits = 5
  IdxBits = 2
  QBits = 4
  Rollover = "carry"
  FracMode = "cell"
  AttTab <- AttCvx
  DecTab <- DecCvx
  StepsA = {3, 48}
  StepsD = {5}
  StepsR = {8, 64}
  Sustains = {0, 8, 16}
  TabShape = "convex"
  Emit = FALSE
VIEW MCView
INVARIANTS TypeOK Inv_C01_range Inv_C02_duration
PROPERTIES Prop_C01_ends Prop_C01_monotone Prop_C02_order Prop_C02_exit Prop_C03_step
CHECK_DEADLOCK FALSE
