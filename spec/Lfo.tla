-------------------------------- MODULE Lfo --------------------------------
(***************************************************************************)
(* Low frequency oscillator (src/lfo.rs): a phase accumulator read out as   *)
(* five wave shapes.  All shapes are state functions of the same `acc`, so  *)
(* reading one cannot disturb another.                                      *)
(*                                                                          *)
(* Exact integer units:  Saw, Down, Tri in units of 1/M  (value = x / M),   *)
(* Sqr in {1,-1}, Sin in the units of SinTab (Q).                           *)
(* SinTab is a function 0..Size -> Int sampling one period at the cell      *)
(* borders (SinTab[Size] = SinTab[0]).                                      *)
(* Switch SineWrap = "size-1": the code as first pinned takes the neighbour *)
(* of the last cell modulo Size-1 (table[1] instead of table[0]).           *)
(***************************************************************************)
EXTENDS PhaseAcc

CONSTANTS SinTab, SineWrap

lfoVars == paVars

\* ---- public operations -------------------------------------------------------------------
Tick        == PA_Tick
SetInc(i)   == PA_SetInc(i)          \* set_frequency(f): i = trunc(M * f / fs)
SetPhase(a) == PA_SetPhase(a)        \* set_phase(p):     a ~ frac(|p|) * M
Reset       == PA_Reset

\* ---- wave shapes as state functions of a phase a ----------------------------------------
SawAt(a)  == 2 * a - M
DownAt(a) == -SawAt(a)
SqrAt(a)  == IF 2 * a < M THEN 1 ELSE -1
TriAt(a)  == IF 4 * a < M THEN 4 * a
             ELSE IF 4 * a < 3 * M THEN 2 * M - 4 * a
             ELSE 4 * a - 4 * M
NextIdx(i) == IF SineWrap = "size" THEN (i + 1) % Size ELSE (i + 1) % (Size - 1)
FracAt(a)  == IF FracMode = "cell" THEN a % C ELSE a \div Size
SinAt(a)   == LET i == a \div C IN
              SinTab[i] + ((SinTab[NextIdx(i)] - SinTab[i]) * FracAt(a)) \div C

Saw == SawAt(acc)  Down == DownAt(acc)  Sqr == SqrAt(acc)  Tri == TriAt(acc)  Sin == SinAt(acc)

\* ---- C10 ---------------------------------------------------------------------------------
Inv_C10_range == /\ -M <= Saw /\ Saw < M
                 /\ -M <= Tri /\ Tri <= M
                 /\ Down = -Saw
                 /\ Sqr \in {1, -1}
Inv_C10_sqr == Sqr = (IF acc < M \div 2 THEN 1 ELSE -1)
\* triangle: in phase with the sine, piecewise linear, anchors 0 at 0, +1 at 1/4, -1 at 3/4
Inv_C10_tri ==
  /\ (acc = 0 => Tri = 0) /\ (acc = M \div 4 => Tri = M) /\ (acc = 3 * (M \div 4) => Tri = -M)
  /\ (acc = M \div 2 => Tri = 0)
  /\ (acc <= M \div 4 => Tri = 4 * acc)
  /\ (acc >= M \div 4 /\ acc <= 3 * (M \div 4) => Tri = 2 * M - 4 * acc)
  /\ (acc >= 3 * (M \div 4) => Tri = 4 * acc - 4 * M)
\* ---- C11 ---------------------------------------------------------------------------------
Prop_C11_tick == [][ (acc' # acc \/ inc' # inc) =>
                        \/ (acc' = (acc + inc) % M /\ inc' = inc)      \* tick
                        \/ (inc' # inc /\ acc' = acc)                  \* set_frequency: no phase jump
                        \/ (inc' = inc) ]_lfoVars                      \* reset / set_phase

\* ---- C12: stated over all phases and increments of a bounded instance in MC_Lfo.tla (TLC evaluates
\* constant-level definitions eagerly, so they cannot live in a module the 24-bit trace spec extends)
=============================================================================
