--------------------------- MODULE Trace_PhaseAcc ---------------------------
(***************************************************************************)
(* Implementation -> specification trace validation for the generic phase  *)
(* accumulator PhaseAccumulator<AccBits, IdxBits> used on its own, at the   *)
(* widths of the configuration files Trace_PhaseAcc_<w>_<i>.cfg (the crate  *)
(* itself instantiates <24,10>; the widths of its documentation and tests   *)
(* are <24,8>; the others show that nothing depends on those numbers).      *)
(*                                                                          *)
(* Every event carries the read-out of the object after the call:           *)
(*   a  = the counter (hook verif_accumulator), ix = index(),               *)
(*   fq = fraction() * 2^(AccBits-IdxBits) if that is an integer, else -1,  *)
(*   rq = ramp() * 2^AccBits rounded to an integer, r1 = 0 <= ramp() <= 1   *)
(* Events:                                                                  *)
(*  {"op":"new","w":n,"i":n,"fs":K}                                         *)
(*  {"op":"t"}  tick()      {"op":"r"}  reset()                             *)
(*  {"op":"take","res":b}   rolled_over()                                   *)
(*  {"op":"sf"|"sper","kind":s,"fl":n,"fr":n,"il":n,"big":b}                *)
(*        set_frequency(f) / set_period(p).  il, big = the increment in     *)
(*        force afterwards modulo 2^AccBits and whether it reaches          *)
(*        2^AccBits, measured by ticking a reset copy once.  kind/fl/fr =   *)
(*        the exact ideal 2^AccBits*f/fs resp. 2^AccBits/(p*fs) from u128   *)
(*        arithmetic on the f32 bit patterns: "num": fl + fr/2^16 (below    *)
(*        2^30); "zero": a frequency of 0 resp. an infinite period; "any":  *)
(*        a negative or NaN argument (outside every documented range, no    *)
(*        expectation); "sat": the ideal exceeds the 32-bit increment       *)
(*        register (saturates); "huge": in between (only big is known)      *)
(*  {"op":"sp","kind":"num"|"nonfinite","neg":b,"lo":n,"hi":n}  set_phase:  *)
(*        lo = floor((2^AccBits - 1) * frac(|p|)), hi = ceil(2^AccBits *    *)
(*        frac(|p|)): the counter may be scaled by its largest value (as    *)
(*        built) or by its range                                            *)
(*  {"op":"panic","during":s}                                               *)
(* Real increments are 32-bit; the specification keeps the representative   *)
(* il + (big ? 2^AccBits : 0), which MC_PhaseAcc!Lemma_rep shows to behave  *)
(* identically.                                                             *)
(***************************************************************************)
EXTENDS PhaseAcc, TraceLib

VARIABLES l, dead,
          fog     \* the roll-over latch is unknown: set_phase was called since it was last taken or reset (whether
                  \* positioning the phase also clears the latch is stated nowhere)

tvars == <<paVars, l, dead, fog>>

e == Rec[l]

Advance(tags) ==
  /\ l' = l + 1
  /\ dead' = dead \cup PropsOf(tags)
  /\ Flag(l, LiveTags(tags, dead))

Pow2(n) == 2 ^ n
\* rounding of the counter to the 24-bit significand of an f32
RampTol     == IF AccBits <= 24 THEN 0 ELSE Pow2(AccBits - 25)
\* C11 positions the phase within 2^-22 of a cycle (the f32 rounding of the product, 2^(AccBits-24), is smaller)
SetPhaseTol == IF AccBits <= 22 THEN 0 ELSE Pow2(AccBits - 22)

\* the read-out must describe the specification's state after the step
ReadTags(what) ==
       (IF e.a # acc' THEN {<<"C11", what>>} ELSE {})
  \cup (IF e.a >= 0 /\ e.a < M /\ (e.ix # e.a \div C \/ e.fq # e.a % C)
          THEN {<<"C10", "index-fraction-split">>, <<"C12", "index-fraction-split">>, <<"C03", "index-fraction-split">>}
          ELSE {})
  \cup (IF e.a >= 0 /\ e.a < M /\ (~e.r1 \/ ~Near(e.rq, e.a, RampTol)) THEN {<<"C10", "ramp">>} ELSE {})
  \cup (IF e.a < 0 \/ e.a >= M THEN {<<"C11", "counter-range">>} ELSE {})

CeilDiv(x, d) == -((-x) \div d)

\* increment in force (il, big) against the ideal; relative tolerance 2^-div
IncTags(shift) ==
  IF e.kind = "any" THEN {}
  ELSE IF e.kind = "zero" THEN (IF e.il # 0 \/ e.big THEN {<<"C11", "increment-of-nonpositive">>} ELSE {})
  ELSE IF e.kind = "sat" THEN (IF e.il # M - 1 \/ ~e.big THEN {<<"C11", "increment-saturation">>} ELSE {})
  ELSE IF e.kind = "huge" THEN (IF ~e.big THEN {<<"C11", "increment">>} ELSE {})
  ELSE LET eps16 == CeilDiv(e.fl + 1, shift) + 1
           upper == e.fl + (e.fr + eps16) \div 65536
           lower == Max2(0, e.fl + CeilDiv(e.fr - eps16, 65536) - 1)
       IN IF \E i \in lower..upper : i % M = e.il /\ (i >= M) = e.big THEN {} ELSE {<<"C11", "increment">>}

---------------------------------------------------------------------------
TMeta == e.op = "meta" /\ UNCHANGED <<paVars, dead, fog>> /\ l' = l + 1

TNew ==
  /\ e.op = "new" /\ e.w = AccBits /\ e.i = IdxBits
  /\ acc' = 0 /\ inc' = 0 /\ rolled' = FALSE /\ lastAcc' = 0
  /\ l' = l + 1 /\ dead' = {} /\ fog' = FALSE

TTick == e.op = "t" /\ PA_Tick /\ fog' = fog /\ Advance(ReadTags("tick-advance"))

TReset == e.op = "r" /\ PA_Reset /\ fog' = FALSE /\ Advance(ReadTags("reset"))

TTake ==
  /\ e.op = "take"
  /\ PA_TakeRolled
  /\ fog' = FALSE
  \* (in the fog a carry seen by the specification since the set_phase still has to be reported)
  /\ Advance(ReadTags("take-disturbs-phase")
             \cup (IF (~fog /\ e.res # rolled) \/ (fog /\ rolled /\ ~e.res)
                     THEN {<<"C11", "rollover-latch">>, <<"C02", "rollover-latch">>} ELSE {}))

\* a negative or NaN argument leaves every documented range: nothing is reported for the rest of the run
TSetInc(op, shift) ==
  /\ e.op = op
  /\ PA_SetInc(e.il + (IF e.big THEN M ELSE 0))
  /\ fog' = fog
  /\ IF e.kind = "any"
       THEN l' = l + 1 /\ dead' = dead \cup {"ALL"}
       ELSE Advance(ReadTags("setfreq-phase-jump") \cup IncTags(shift))

\* the wrapped window [wlo, whi] (it may straddle the end of the counter range)
InWrap == LET lo2 == e.wlo - SetPhaseTol  hi2 == e.whi + SetPhaseTol
          IN \E k \in {-1, 0, 1} : lo2 <= e.a + k * M /\ e.a + k * M <= hi2

TSetPhase ==
  /\ e.op = "sp"
  /\ PA_SetPhase(IF e.a >= 0 /\ e.a < M THEN e.a ELSE acc)
  /\ fog' = TRUE
  /\ IF e.kind # "num"    \* a NaN or infinite phase is outside the documented range ("any finite value")
       THEN l' = l + 1 /\ dead' = dead \cup {"ALL"}
       ELSE Advance(   (IF e.a < 0 \/ e.a >= M THEN {<<"C11", "set-phase-range">>} ELSE {})
                  \* (a negative phase: mirrored as built, or wrapped - wlo / whi - both depend on p modulo 1 only)
                  \cup (IF (e.a < e.lo - SetPhaseTol \/ e.a > e.hi + SetPhaseTol)
                          /\ ~(Has(e, "wlo") /\ InWrap)
                          THEN {<<"C11", "set-phase">>} ELSE {})
                  \cup ReadTags("set-phase"))

TPanic ==
  /\ e.op = "panic"
  /\ UNCHANGED <<paVars, fog>>
  /\ Advance({<<"C17", "panic">>, <<"C11", "panic">>})

TNext == l <= NRec /\ (TMeta \/ TNew \/ TTick \/ TReset \/ TTake \/ TSetInc("sf", 128) \/ TSetInc("sper", 64)
                       \/ TSetPhase \/ TPanic)
TInit == PA_Init /\ l = 1 /\ dead = {} /\ fog = FALSE /\ FlagInit
TSpec == TInit /\ [][TNext]_tvars
TInv == acc \in 0..(M - 1)
=============================================================================
