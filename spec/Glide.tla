-------------------------------- MODULE Glide --------------------------------
(***************************************************************************)
(* Glide (portamento) processor (src/glide_processor.rs): a one-pole lag    *)
(* whose time setting is cached with a dead band.                           *)
(*                                                                          *)
(* Time is an integer in units of the instance (10 ms when model checking,  *)
(* 1 microsecond in the trace specification).                               *)
(*   cached = requested time of the last honoured set_time call, -1 = none  *)
(*   eff    = time in effect: cached clamped to [TFast, TSlow]              *)
(* set_time(t) is honoured iff nothing is cached yet or t differs from the  *)
(* cached time by more than Dead.                                           *)
(*                                                                          *)
(* The filter itself is modelled on an integer grid as the family           *)
(*   y' = x + p * (y - x),  p = pole/4 (truncating toward zero),            *)
(* which is what a one-pole lag with a pole in [0,1) does: the output moves *)
(* toward the input by a fixed fraction of the remaining distance.  The     *)
(* code as first pinned used a bilinear design whose pole is negative for   *)
(* times below 4/fs and -1 at the fastest setting: PoleOf may be given      *)
(* negative values to reproduce that (switch Design = "bilinear-fs2").      *)
(***************************************************************************)
EXTENDS Integers

CONSTANTS Dead, TFast, TSlow, Design

VARIABLES cached, eff, pole, y, x, lo, hi

gVars == <<cached, eff, pole, y, x, lo, hi>>

ClampT(t) == IF t < TFast THEN TFast ELSE IF t > TSlow THEN TSlow ELSE t
Honoured(t) == cached = -1 \/ t - cached > Dead \/ cached - t > Dead

\* pole numerator (over 4) as a function of the time in effect: slower glide, pole closer to 1
PoleOf(t) ==
  IF Design = "one-pole" THEN (IF t <= TFast THEN 1 ELSE IF t <= 4 * TFast THEN 2 ELSE 3)
  ELSE (IF t <= TFast THEN -4 ELSE IF t <= 2 * TFast THEN -1 ELSE IF t <= 4 * TFast THEN 1 ELSE 3)

SetTime(t) ==
  IF Honoured(t)
    THEN /\ cached' = t /\ eff' = ClampT(t) /\ pole' = PoleOf(ClampT(t))
         /\ UNCHANGED <<y, x, lo, hi>>
    ELSE UNCHANGED gVars

\* truncation toward zero
Tz(n, d) == IF n >= 0 THEN n \div d ELSE -((-n) \div d)

Process(v) ==
  /\ y' = v + Tz(pole * (y - v), 4)
  /\ x' = v
  /\ lo' = (IF v < lo THEN v ELSE lo) /\ hi' = (IF v > hi THEN v ELSE hi)
  /\ UNCHANGED <<cached, eff, pole>>

GInit == /\ cached = -1 /\ eff = TFast /\ pole = PoleOf(TFast)
         /\ y = 0 /\ x = 0 /\ lo = 0 /\ hi = 0

\* ---- C13 ----
Inv_C13_hull == lo <= y /\ y <= hi
\* while the input is held the output approaches it monotonically and never crosses it
C13_monotone(v) == (v = x) => /\ (y >= v => (y' <= y /\ y' >= v))
                              /\ (y <= v => (y' >= y /\ y' <= v))
\* ---- C14 ----
Inv_C14_effective == (cached # -1 => eff = ClampT(cached)) /\ eff >= TFast /\ eff <= TSlow
=============================================================================
