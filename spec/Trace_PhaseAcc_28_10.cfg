SPECIFICATION TSpec
CONSTANTS
  AccBits = 28
  IdxBits = 10
  Rollover = "carry"
  FracMode = "cell"
INVARIANT TInv
POSTCONDITION Report
CHECK_DEADLOCK FALSE
