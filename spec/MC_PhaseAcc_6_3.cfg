SPECIFICATION MCSpec
CONSTANTS
  AccBits = 6
  IdxBits = 3
  Rollover = "carry"
  FracMode = "cell"
  Incs = {0, 1, 3, 32, 63, 64, 65, 128, 197}
  Emit = FALSE
CONSTRAINT Bound
INVARIANTS TypeOK Inv_drift Inv_latch Inv_split Inv_divider

CHECK_DEADLOCK FALSE
