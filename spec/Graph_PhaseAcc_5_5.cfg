\* every-transition replay graph for the real PhaseAccumulator<5,5> at fs = 32 Hz (frequency i Hz
\* gives exactly the increment i)
SPECIFICATION MCSpec
CONSTANTS
  AccBits = 5
  IdxBits = 5
  Rollover = "carry"
  FracMode = "cell"
  Incs = {0, 1, 3, 16, 31, 32, 33, 64, 101}
  Emit = TRUE
VIEW GView
CHECK_DEADLOCK FALSE
