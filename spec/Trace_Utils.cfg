SPECIFICATION TSpec
POSTCONDITION Report
CHECK_DEADLOCK FALSE
