------------------------------- MODULE Midi -------------------------------
(***************************************************************************)
(* Monophonic MIDI receiver (src/mono_midi_receiver.rs + the byte-stream    *)
(* parser of midi-convert).  Two layers in one module:                      *)
(*                                                                          *)
(*   wire layer  : MIDI 1.0 framing, written from the standard (running     *)
(*                 status, status byte aborts a partial message, system     *)
(*                 common cancels running status, real-time is transparent) *)
(*   voice layer : outstanding note-ons, gate + two edge latches, note      *)
(*                 priority, velocity, pitch bend, controllers              *)
(*                                                                          *)
(* One action per public call of the code: Byte(b) = parse(b),              *)
(* PollRising / PollFalling = the two self-clearing getters, SetRetrig,     *)
(* SetPrio, New(c).  Msg(s,a,b) is the message-level short-cut used by the  *)
(* model checker (same Apply).                                              *)
(*                                                                          *)
(* The specification describes the *intended* design (properties C04, C05,  *)
(* C06, C18).  Where the code as first pinned differs, the as-built         *)
(* behaviour is available through the two switches AnoFalling and           *)
(* StrayOffFalling; registered checks always use the intended setting.      *)
(***************************************************************************)
EXTENDS Integers, Sequences, FiniteSets

CONSTANTS
  HeldCap,          \* capacity of the held-note list (32 in the code)
  AnoFalling,       \* "edge"  : All-Notes-Off raises the falling edge iff the gate was high
                    \* "cleared": as first built, it clears the latch
  StrayOffFalling   \* "never" : a note-off that finds the gate low leaves the latch alone
                    \* "always": as first built, it raises it

VARIABLES
  \* ---- wire layer
  rs,      \* running status byte 0x80..0xEF, or 0 when none
  d1,      \* first data byte of a two-data-byte message, or -1
  \* ---- voice layer
  chan,    \* listened channel 0..15
  held,    \* sequence of outstanding note-ons (note numbers, oldest first)
  gate, rise, fall,
  note,    \* 0..127
  vel,     \* 0..127  (velocity() = vel/127)
  pb,      \* 0..16383
  cc,      \* [mod, vol, cut, res, pt : 0..127]
  porta, sust,
  retrig,  \* BOOLEAN  (TRUE = AllowRetrigger)
  prio,    \* "last" | "high" | "low"
  over,    \* ghost: a note-on was dropped because the list was full (outside C04's premise)
  \* ---- ghosts in the vocabulary of C04: the set of outstanding note-ons with arrival stamps
  outs,    \* set of <<stamp, note>>
  stamp,
  nm,      \* number of note messages (note-on, note-off, All-Notes-Off) applied so far
  dflt     \* power-on controller state [cc, porta, sust]: what a new receiver shows and controller 121 restores

wireVars  == <<rs, d1>>
ctlVars   == <<pb, cc, porta, sust>>
noteVars  == <<held, gate, rise, fall, note, vel, over, outs, stamp, nm>>
modeVars  == <<retrig, prio, dflt>>
voiceVars == <<chan, noteVars, ctlVars, modeVars>>
vars      == <<wireVars, voiceVars>>

Prios == {"last", "high", "low"}

CcZero == [mod |-> 0, vol |-> 0, cut |-> 0, res |-> 0, pt |-> 0]

---------------------------------------------------------------------------
(* helpers *)

SeqMax(s) == CHOOSE x \in {s[i] : i \in 1..Len(s)} : \A j \in 1..Len(s) : s[j] <= x
SeqMin(s) == CHOOSE x \in {s[i] : i \in 1..Len(s)} : \A j \in 1..Len(s) : s[j] >= x

\* the note that sounds for a non-empty list under priority p
Pick(s, p) == CASE p = "last" -> s[Len(s)]
                [] p = "high" -> SeqMax(s)
                [] p = "low"  -> SeqMin(s)

Without(s, n) == SelectSeq(s, LAMBDA x : x # n)

---------------------------------------------------------------------------
(* voice layer: effect of one complete channel message on the listened channel *)

NoteOn(n, v) ==
  LET full  == Len(held) >= HeldCap
      held2 == IF full THEN held ELSE Append(held, n)
  IN /\ vel'   = v
     /\ held'  = held2
     /\ over'  = (over \/ full)
     /\ note'  = IF held2 = <<>> THEN note ELSE Pick(held2, prio)
     /\ gate'  = TRUE
     /\ fall'  = FALSE
     /\ rise'  = IF retrig \/ ~gate THEN TRUE ELSE rise
     /\ outs'  = outs \cup {<<stamp, n>>}
     /\ stamp' = stamp + 1
     /\ nm' = nm + 1
     /\ UNCHANGED <<chan, ctlVars, modeVars>>

NoteOff(n) ==
  LET held2 == Without(held, n)
  IN /\ held' = held2
     /\ outs' = {p \in outs : p[2] # n}
     /\ IF held2 = <<>>
          THEN /\ gate' = FALSE
               /\ rise' = FALSE
               /\ fall' = IF gate \/ StrayOffFalling = "always" THEN TRUE ELSE fall
               /\ note' = note
          ELSE /\ note' = Pick(held2, prio)
               /\ UNCHANGED <<gate, rise, fall>>
     /\ nm' = nm + 1
     /\ UNCHANGED <<vel, over, stamp, chan, ctlVars, modeVars>>

AllNotesOff ==
  /\ held' = <<>>
  /\ outs' = {}
  /\ gate' = FALSE
  /\ rise' = FALSE
  /\ fall' = IF AnoFalling = "cleared" THEN FALSE ELSE (IF gate THEN TRUE ELSE fall)
  /\ nm' = nm + 1
  /\ UNCHANGED <<note, vel, over, stamp, chan, ctlVars, modeVars>>

ResetControllers ==
  /\ pb' = 8192
  /\ cc' = dflt.cc
  /\ porta' = dflt.porta
  /\ sust' = dflt.sust
  /\ UNCHANGED <<chan, noteVars, modeVars>>

CcField(k) == CASE k = 1  -> "mod"
                [] k = 7  -> "vol"
                [] k = 71 -> "cut"
                [] k = 74 -> "res"
                [] k = 5  -> "pt"

Control(k, v) ==
  IF k \in {1, 7, 71, 74, 5}
    THEN /\ cc' = [cc EXCEPT ![CcField(k)] = v]
         /\ UNCHANGED <<pb, porta, sust, chan, noteVars, modeVars>>
  ELSE IF k = 65
    THEN /\ porta' = (v >= 64)
         /\ UNCHANGED <<pb, cc, sust, chan, noteVars, modeVars>>
  ELSE IF k = 64
    THEN /\ sust' = (v >= 64)
         /\ UNCHANGED <<pb, cc, porta, chan, noteVars, modeVars>>
  ELSE IF k = 121 THEN ResetControllers
  ELSE IF k = 123 THEN AllNotesOff
  ELSE UNCHANGED voiceVars

PitchBend(lsb, msb) ==
  /\ pb' = lsb + 128 * msb
  /\ UNCHANGED <<cc, porta, sust, chan, noteVars, modeVars>>

\* a complete message <<status, a, b>> (b = 0 for one-data-byte messages)
Apply(s, a, b) ==
  LET type == s \div 16
      ch   == s % 16
  IN IF ch # chan THEN UNCHANGED voiceVars
     ELSE CASE type = 9 /\ b > 0 -> NoteOn(a, b)
            [] type = 9 /\ b = 0 -> NoteOff(a)
            [] type = 8          -> NoteOff(a)
            [] type = 11         -> Control(a, b)
            [] type = 14         -> PitchBend(a, b)
            [] OTHER             -> UNCHANGED voiceVars   \* 0xA, 0xC, 0xD: not supported

---------------------------------------------------------------------------
(* wire layer *)

IsRealTime(b)  == b >= 248
IsSysCommon(b) == b >= 240 /\ b <= 247
IsChanStatus(b) == b >= 128 /\ b <= 239
OneData(s) == (s \div 16) \in {12, 13}

\* parse(b): one byte from the wire
Byte(b) ==
  IF IsRealTime(b) THEN UNCHANGED vars                       \* transparent, anywhere
  ELSE IF IsSysCommon(b) THEN                                \* cancels running status + partial msg
       /\ rs' = 0 /\ d1' = -1 /\ UNCHANGED voiceVars
  ELSE IF IsChanStatus(b) THEN                               \* new status; partial message dropped
       /\ rs' = b /\ d1' = -1 /\ UNCHANGED voiceVars
  ELSE \* data byte
       IF rs = 0 THEN UNCHANGED vars                         \* nothing to attach it to
       ELSE IF OneData(rs) THEN /\ UNCHANGED wireVars /\ Apply(rs, b, 0)
       ELSE IF d1 = -1 THEN /\ d1' = b /\ rs' = rs /\ UNCHANGED voiceVars
       ELSE /\ d1' = -1 /\ rs' = rs /\ Apply(rs, d1, b)

\* message-level short cut (model checking only): a complete 3-byte message
Msg(s, a, b) == /\ UNCHANGED wireVars /\ Apply(s, a, b)

---------------------------------------------------------------------------
(* the other public calls *)

PollRising  == /\ rise' = FALSE
               /\ UNCHANGED <<wireVars, chan, held, gate, fall, note, vel, over, outs, stamp, nm, ctlVars, modeVars>>
PollFalling == /\ fall' = FALSE
               /\ UNCHANGED <<wireVars, chan, held, gate, rise, note, vel, over, outs, stamp, nm, ctlVars, modeVars>>
SetRetrig(m) == /\ retrig' = m
                /\ UNCHANGED <<wireVars, chan, noteVars, ctlVars, prio, dflt>>
SetPrio(p)   == /\ prio' = p
                /\ UNCHANGED <<wireVars, chan, noteVars, ctlVars, retrig, dflt>>

AsBuiltDflt == [cc |-> CcZero, porta |-> TRUE, sust |-> TRUE]

InitFor(c) ==
  /\ rs = 0 /\ d1 = -1
  /\ chan = IF c > 15 THEN 15 ELSE c
  /\ held = <<>> /\ gate = FALSE /\ rise = FALSE /\ fall = FALSE
  /\ note = 0 /\ vel = 0 /\ pb = 8192 /\ cc = CcZero
  /\ porta = TRUE /\ sust = TRUE /\ dflt = AsBuiltDflt
  /\ retrig = FALSE /\ prio = "last"
  /\ over = FALSE /\ outs = {} /\ stamp = 0 /\ nm = 0

\* New(c) as a step (trace validation concatenates many runs)
New(c) ==
  /\ rs' = 0 /\ d1' = -1
  /\ chan' = IF c > 15 THEN 15 ELSE c
  /\ held' = <<>> /\ gate' = FALSE /\ rise' = FALSE /\ fall' = FALSE
  /\ note' = 0 /\ vel' = 0 /\ pb' = 8192 /\ cc' = CcZero
  /\ porta' = TRUE /\ sust' = TRUE /\ dflt' = AsBuiltDflt
  /\ retrig' = FALSE /\ prio' = "last"
  /\ over' = FALSE /\ outs' = {} /\ stamp' = 0 /\ nm' = 0

\* the same with the power-on controller state d observed on the new receiver (nobody states it)
NewWith(c, d) ==
  /\ rs' = 0 /\ d1' = -1
  /\ chan' = IF c > 15 THEN 15 ELSE c
  /\ held' = <<>> /\ gate' = FALSE /\ rise' = FALSE /\ fall' = FALSE
  /\ note' = 0 /\ vel' = 0 /\ pb' = 8192 /\ cc' = d.cc
  /\ porta' = d.porta /\ sust' = d.sust /\ dflt' = d
  /\ retrig' = FALSE /\ prio' = "last"
  /\ over' = FALSE /\ outs' = {} /\ stamp' = 0 /\ nm' = 0

---------------------------------------------------------------------------
(* Properties, in the vocabulary of the statements                          *)

\* ---- C04
OutNotes == {p[2] : p \in outs}
Newest   == CHOOSE p \in outs : \A q \in outs : q[1] <= p[1]
Selected(p) == CASE p = "last" -> Newest[2]
                 [] p = "high" -> CHOOSE n \in OutNotes : \A m \in OutNotes : m <= n
                 [] p = "low"  -> CHOOSE n \in OutNotes : \A m \in OutNotes : m >= n

Inv_C04_gate == ~over => (gate <=> outs # {})

\* the held list is the outstanding note-ons in arrival order
Inv_C04_held ==
  ~over => /\ Len(held) = Cardinality(outs)
           /\ \A i \in 1..Len(held) :
                \E p \in outs : /\ p[2] = held[i]
                                /\ Cardinality({q \in outs : q[1] < p[1]}) = i - 1

\* as of a note message the selected note is the one the priority picks; it is kept when nothing
\* is outstanding; nothing but a note message changes it
NoteMsgStep == nm' # nm
Prop_C04_note ==
  [][ ~over' =>
        /\ (NoteMsgStep /\ outs' # {}) => note' = Selected(prio)'
        /\ (outs' = {}) => note' = note
        /\ ~NoteMsgStep => note' = note ]_vars

\* velocity is that of the most recent note-on (velocity > 0) and changes with nothing else
Prop_C04_vel == [][ vel' # vel => stamp' = stamp + 1 ]_vars

\* ---- C05
Inv_C05_imply == (rise => gate) /\ (fall => ~gate)

\* the falling latch is raised exactly by a gate drop, lowered exactly by a note-on or its poll
Prop_C05_fall ==
  [][ /\ (gate /\ ~gate') => fall'
      /\ (~fall /\ fall') => (gate /\ ~gate')
      /\ (fall /\ ~fall') => (gate' \/ UNCHANGED <<gate, held, outs, note, vel, rise>>) ]_vars

\* the rising latch is raised exactly by a note-on that finds the gate low or arrives in retrigger
\* mode; lowered exactly by a gate drop or its poll
Prop_C05_rise ==
  [][ /\ (stamp' = stamp + 1 /\ (~gate \/ retrig)) => rise'
      /\ (~rise /\ rise') => (stamp' = stamp + 1 /\ (~gate \/ retrig))
      /\ (rise /\ ~rise') => (~gate' \/ UNCHANGED <<gate, held, outs, note, vel, fall>>) ]_vars

\* ---- C06 (consequences of the framing rules; the rules themselves are Byte)
\* (checked as action properties in MC_Midi where the byte is known: see MC_Midi.tla)

\* ---- C18
Inv_C18_ranges ==
  /\ pb \in 0..16383
  /\ \A f \in DOMAIN cc : cc[f] \in 0..127

TypeOK ==
  /\ rs \in {0} \cup 128..239
  /\ d1 \in -1..127
  /\ chan \in 0..15
  /\ gate \in BOOLEAN /\ rise \in BOOLEAN /\ fall \in BOOLEAN
  /\ note \in 0..127 /\ vel \in 0..127
  /\ porta \in BOOLEAN /\ sust \in BOOLEAN /\ retrig \in BOOLEAN
  /\ prio \in Prios
  /\ Len(held) <= HeldCap
  /\ Inv_C18_ranges
=============================================================================
