\* every-transition replay graph of the set_time dead band for the real GlideProcessor at 100 Hz
\* (times in units of 10 ms; no two of them are exactly one dead band apart; eleven times, so that every
\* history of five set_time calls followed by a probe fits the replay budget)
SPECIFICATION GSpec
CONSTANTS
  Dead = 5
  TFast = 2
  TSlow = 1000
  Design = "one-pole"
  Times = {0, 1, 4, 8, 10, 12, 50, 53, 1000, 1004, 1200}
  Inputs <- InputSet
  SettleBound = 12
VIEW GKey
CHECK_DEADLOCK FALSE
