\* every-transition replay graph of the set_time dead band for the real GlideProcessor at 100 Hz
\* (times in units of 10 ms; no two of them are exactly one dead band apart)
SPECIFICATION GSpec
CONSTANTS
  Dead = 5
  TFast = 2
  TSlow = 1000
  Design = "one-pole"
  Times = {0, 1, 3, 4, 7, 10, 13, 19, 50, 53, 57, 64, 1000, 1004, 1007, 1013, 1200}
  Inputs <- InputSet
  SettleBound = 12
VIEW GKey
CHECK_DEADLOCK FALSE
