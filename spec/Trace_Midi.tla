----------------------------- MODULE Trace_Midi -----------------------------
(***************************************************************************)
(* Implementation -> specification trace validation for the MIDI receiver. *)
(*                                                                          *)
(* Events (one JSON object per line):                                       *)
(*   {"op":"new","c":<u8>,"drv":<driver>}        MonoMidiReceiver::new(c)   *)
(*   {"op":"b","b":<byte>,"o":[...]}             parse(b), then all getters *)
(*   {"op":"pr","r":<bool>} / {"op":"pf",...}    rising_gate()/falling_gate *)
(*   {"op":"rt","m":<bool>}                      set_retrigger_mode         *)
(*   {"op":"pri","p":"last|high|low"}            set_note_priority          *)
(*   {"op":"panic","msg":...}                    a call panicked            *)
(*   {"op":"mark"} ... {"op":"rep","n":k}        run-length compression: the *)
(*        events between the two were followed by k repetitions of exactly  *)
(*        the same calls with exactly the same observations, line for line  *)
(*        (compared by the recorder); accepted iff the marked repetition    *)
(*        returned the specification to the state it had at the mark, so    *)
(*        that each of the k repetitions is a behaviour already examined    *)
(* o = [gate, note, K(velocity), K(pitch_bend), K(mod), K(volume),          *)
(*      K(cutoff), K(resonance), K(porta time), porta_enabled, sustain_en]  *)
(* K = order key of the f32 (see DESIGN 3.1); NaNKey = 2147483647 if the value is NaN.    *)
(***************************************************************************)
EXTENDS Midi, TraceLib, Tables

VARIABLES l,      \* index of the next event
          dead,   \* properties for which a divergence was already reported in this run
          drv,    \* driver class of the current run (decides which property owns a mismatch)
          lastPb, \* <<14-bit value, key>> of the previous pitch-bend observation (monotonicity)
          snap    \* the state at the last "mark" event (ghost counters excluded)

tvars == <<vars, l, dead, drv, lastPb, snap>>

Core == <<wireVars, chan, held, gate, rise, fall, note, vel, over, ctlVars, modeVars, lastPb>>

e == Rec[l]

KeyNegOne == -KeyOne

\* ---- observation predicates for one parse(b) event: set of failed tags -------------------
Sign(x) == IF x > 0 THEN 1 ELSE IF x < 0 THEN -1 ELSE 0

PbTags(o) ==
  LET k == o[4] IN
  IF k = NaNKey THEN {<<"C18", "pb-nan">>}
  ELSE (IF pb' = 0     /\ k # KeyNegOne THEN {<<"C18", "pb-min">>}  ELSE {})
  \cup (IF pb' = 8192  /\ k # 0         THEN {<<"C18", "pb-zero">>} ELSE {})
  \cup (IF pb' = 16383 /\ k # KeyOne    THEN {<<"C18", "pb-max">>}  ELSE {})
  \cup (IF k < KeyNegOne \/ k > KeyOne  THEN {<<"C18", "pb-range">>} ELSE {})
  \cup (IF Sign(pb' - lastPb[1]) # Cmp(k, lastPb[2]) THEN {<<"C18", "pb-monotone">>} ELSE {})

CcTag(name, k, v) ==
  IF k = NaNKey THEN {<<"C18", name>>}
  ELSE IF ~Near(k, CcKey(v), 1) \/ (v = 0 /\ k # 0) \/ (v = 127 /\ k # KeyOne) THEN {<<"C18", name>>}
  ELSE {}

ObsTags(o) ==
       (IF o[1] # gate' THEN {<<"C04", "gate">>} ELSE {})
  \cup (IF o[2] # note' THEN {<<"C04", "note">>} ELSE {})
  \cup (IF o[3] = NaNKey \/ ~Near(o[3], CcKey(vel'), 1) THEN {<<"C04", "velocity">>} ELSE {})
  \cup PbTags(o)
  \cup CcTag("mod", o[5], cc'.mod) \cup CcTag("volume", o[6], cc'.vol)
  \cup CcTag("cutoff", o[7], cc'.cut) \cup CcTag("resonance", o[8], cc'.res)
  \cup CcTag("portamento-time", o[9], cc'.pt)
  \cup (IF o[10] # porta' THEN {<<"C18", "portamento-switch">>} ELSE {})
  \cup (IF o[11] # sust'  THEN {<<"C18", "sustain-switch">>} ELSE {})

\* C06: "after every byte all observable outputs equal those obtained by decoding the stream and applying
\* the supported messages" - every deviation of an output is therefore also a C06 deviation
Own(tags) == IF tags # {} THEN tags \cup {<<"C06", "outputs">>} ELSE tags

Beyond == IF ~over' THEN {}
          ELSE IF e.op = "b" /\ e.o[1] # gate' THEN {"C04", "C05", "C06"} ELSE {"C04", "C06"}

Advance(tags) ==
  /\ l' = l + 1
  \* beyond 32 outstanding notes the premise of C04 no longer holds: which note sounds (and hence C06's
  \* decode-and-apply image of it) is not reported any more in this run; the edge latches, controllers
  \* and pitch bend still are (the specification models the 33rd note-on as built: not remembered, but
  \* gate, velocity and rising edge as for any note-on)
  \* ... as long as the observed gate agrees with the specification's: the edges are stated relative to
  \* gate() itself, and which keys an overflowing list remembers (hence when the gate drops) is not
  \* specified - from the first disagreement on C05 is not reported in this run either
  /\ dead' = Beyond \cup dead \cup PropsOf(tags)
  /\ Flag(l, LiveTags(tags, Beyond \cup dead))

---------------------------------------------------------------------------
\* d = [mod, volume, cutoff, resonance, portamento time (0..127), portamento switch, sustain switch] as
\* shown by the new receiver before any byte: the power-on state, which controller 121 restores
TNew ==
  /\ e.op = "new"
  /\ IF Has(e, "d")
       THEN NewWith(e.c, [cc |-> [mod |-> e.d[1], vol |-> e.d[2], cut |-> e.d[3], res |-> e.d[4], pt |-> e.d[5]],
                          porta |-> e.d[6], sust |-> e.d[7]])
       ELSE New(e.c)
  /\ l' = l + 1 /\ dead' = {} /\ drv' = e.drv /\ lastPb' = <<8192, 0>> /\ snap' = <<>>

\* the byte completes a control change on the listened channel whose number C18 does not name: whatever
\* it changes is (also) a deviation from C18's "no other controller number changes anything"
OtherCC == /\ rs >= 176 /\ rs <= 191 /\ rs % 16 = chan /\ d1 # -1 /\ e.b < 128
           /\ d1 \notin {1, 7, 71, 74, 5, 65, 64, 121, 123}
\* (only a deviation that is reported here for the first time: one that has been visible since an earlier
\* event, e.g. beyond the premise of C04, was not caused by this byte)
OwnCC(tags) == IF OtherCC /\ LiveTags(tags, Beyond \cup dead) # {}
                 THEN tags \cup {<<"C18", "other-controller-changes-something">>} ELSE tags

TByte ==
  /\ e.op = "b"
  /\ Byte(e.b)
  /\ drv' = drv /\ snap' = snap
  /\ lastPb' = IF e.o[4] = NaNKey THEN lastPb ELSE <<pb', e.o[4]>>
  /\ Advance(OwnCC(Own(ObsTags(e.o))))

TPollR ==
  /\ e.op = "pr"
  /\ PollRising
  /\ UNCHANGED <<drv, lastPb, snap>>
  /\ Advance(Own(IF e.r # rise THEN {<<"C05", "rising">>} ELSE {}))

TPollF ==
  /\ e.op = "pf"
  /\ PollFalling
  /\ UNCHANGED <<drv, lastPb, snap>>
  /\ Advance(Own(IF e.r # fall THEN {<<"C05", "falling">>} ELSE {}))

TRetrig == /\ e.op = "rt"  /\ SetRetrig(e.m) /\ UNCHANGED <<drv, lastPb, snap>> /\ Advance({})
TPrio   == /\ e.op = "pri" /\ SetPrio(e.p)   /\ UNCHANGED <<drv, lastPb, snap>> /\ Advance({})

TPanic ==
  /\ e.op = "panic"
  /\ UNCHANGED <<vars, drv, lastPb, snap>>
  /\ Advance({<<"C17", "panic">>, <<"C06", "panic">>})

\* first line of a violation replay file: who produced it (ignored)
TMeta == e.op = "meta" /\ UNCHANGED <<vars, dead, drv, lastPb, snap>> /\ l' = l + 1

TMark == e.op = "mark" /\ snap' = Core /\ UNCHANGED <<vars, dead, drv, lastPb>> /\ l' = l + 1
TRep ==
  /\ e.op = "rep"
  /\ UNCHANGED <<vars, drv, lastPb, snap>>
  /\ Advance(IF Core = snap THEN {} ELSE {<<"C04", "repetition-not-a-cycle">>, <<"C05", "repetition-not-a-cycle">>,
                                           <<"C06", "repetition-not-a-cycle">>, <<"C18", "repetition-not-a-cycle">>})

TNext == l <= NRec /\ (TMeta \/ TMark \/ TRep \/ TNew \/ TByte \/ TPollR \/ TPollF \/ TRetrig \/ TPrio \/ TPanic)

TInit == InitFor(0) /\ l = 1 /\ dead = {} /\ drv = "none" /\ lastPb = <<8192, 0>> /\ snap = <<>> /\ FlagInit

TSpec == TInit /\ [][TNext]_tvars

\* invariants of the design evaluated on the implementation-driven behaviour
TInv == Inv_C05_imply /\ TypeOK
=============================================================================
