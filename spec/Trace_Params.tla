----------------------------- MODULE Trace_Params -----------------------------
(***************************************************************************)
(* Trace validation for the clamping conversions (C20).                     *)
(*                                                                          *)
(*  {"op":"begin","what":"time"|"sustain"}    start of a sweep over ALL     *)
(*        f32 bit patterns, reported as maximal runs over the order key     *)
(*  {"op":"run","lo":k,"hi":k,"kind":"id"|"const","c":k}   every key in     *)
(*        lo..hi is mapped to itself ("id") or to the constant c            *)
(*  {"op":"nan","count":n,"results":[k..]}    all NaN patterns: the set of  *)
(*        results (order keys)                                              *)
(*  {"op":"end","patterns":n}                 number of bit patterns seen   *)
(*  {"op":"note","n":u8,"v":u8}               u8::from(Note::from(n))       *)
(*  {"op":"chan","c":u8,"resp":[b x16]}       MonoMidiReceiver::new(c)      *)
(*        answers a note-on sent on channel i                               *)
(*  {"op":"envpair","neq":n,"ticks":n,...}    two envelopes, one set up     *)
(*        with out-of-range values, one with the bounds, same schedule:     *)
(*        number of ticks at which value() or the phase differed            *)
(***************************************************************************)
EXTENDS Params, TraceLib, Tables

VARIABLES l, what, nextKey, sawNan

tvars == <<l, what, nextKey, sawNan>>
e == Rec[l]

Lo == IF what = "time" THEN KeyTimeMin ELSE 0
Hi == IF what = "time" THEN KeyTimeMax ELSE KeyOne

Step(tags) == l' = l + 1 /\ Flag(l, tags)

TBegin == /\ e.op = "begin" /\ what' = e.what /\ nextKey' = -KeyInf /\ sawNan' = FALSE /\ Step({})

RunTags ==
       (IF e.lo # nextKey \/ e.hi < e.lo THEN {<<"C20", "sweep-not-contiguous">>} ELSE {})
  \cup (IF e.kind = "id" /\ (e.lo < Lo \/ e.hi > Hi) THEN {<<"C20", what \o "-out-of-range-value-kept">>} ELSE {})
  \cup (IF e.kind = "const" /\ ~(   (e.hi < Lo /\ e.c = Lo)
                                 \/ (e.lo > Hi /\ e.c = Hi)
                                 \/ (e.lo = e.hi /\ e.c = ClampKey(e.lo, Lo, Hi)))
          THEN {<<"C20", what \o "-not-nearest-bound">>} ELSE {})
  \cup (IF e.kind \notin {"id", "const"} THEN {<<"C20", what \o "-not-a-clamp">>} ELSE {})

TRun == /\ e.op = "run" /\ nextKey' = e.hi + 1 /\ UNCHANGED <<what, sawNan>> /\ Step(RunTags)

TNan == /\ e.op = "nan" /\ sawNan' = TRUE /\ UNCHANGED <<what, nextKey>>
        /\ Step(IF \A i \in 1..Len(e.results) : e.results[i] \in {Lo, Hi} THEN {}
                ELSE {<<"C20", what \o "-nan-not-a-bound">>})

TEnd == /\ e.op = "end" /\ UNCHANGED <<what, nextKey, sawNan>>
        /\ Step(   (IF nextKey # KeyInf + 1 THEN {<<"C20", "sweep-incomplete">>} ELSE {})
              \cup (IF ~sawNan THEN {<<"C20", "sweep-incomplete">>} ELSE {}))

TNote == /\ e.op = "note" /\ UNCHANGED <<what, nextKey, sawNan>>
         /\ Step(IF e.v # NoteClamp(e.n) THEN {<<"C20", "note-clamp">>} ELSE {})

TChan == /\ e.op = "chan" /\ UNCHANGED <<what, nextKey, sawNan>>
         /\ Step(IF \A i \in 1..16 : e.resp[i] = (i - 1 = ChanClamp(e.c)) THEN {} ELSE {<<"C20", "channel-clamp">>})

TPair == /\ e.op = "envpair" /\ UNCHANGED <<what, nextKey, sawNan>>
         /\ Step(IF e.neq # 0 THEN {<<"C20", "behaves-differently-from-bound">>} ELSE {})

TMeta == e.op \in {"meta", "new"} /\ UNCHANGED <<what, nextKey, sawNan>> /\ l' = l + 1
TPanic == e.op = "panic" /\ UNCHANGED <<what, nextKey, sawNan>> /\ Step({<<"C17", "panic">>, <<"C20", "panic">>})

TNext == l <= NRec /\ (TMeta \/ TBegin \/ TRun \/ TNan \/ TEnd \/ TNote \/ TChan \/ TPair \/ TPanic)
TInit == l = 1 /\ what = "time" /\ nextKey = 0 /\ sawNan = FALSE /\ FlagInit
TSpec == TInit /\ [][TNext]_tvars
=============================================================================
