------------------------------ MODULE MC_Midi ------------------------------
(***************************************************************************)
(* Bounded instances of Midi.tla for TLC.                                   *)
(*   SpecMsg  : message level (complete channel messages, polls, modes)     *)
(*   SpecByte : byte level over an alphabet of representative bytes         *)
(* With Emit = TRUE every generated transition is printed as one JSON line  *)
(* ("EDGE", projection, operation, projection') - bin/graph.py turns these  *)
(* into the every-transition replay file for the Rust harness.              *)
(***************************************************************************)
EXTENDS Midi, TLC, Json

CONSTANTS
  Notes,       \* note numbers used by note messages
  Vels,        \* velocities (0 = note-off by running status)
  CcMsgs,      \* set of <<controller, value>> pairs
  PbMsgs,      \* set of <<lsb, msb>> pairs
  Channel,     \* listened channel of the instance
  Foreign,     \* one other channel
  Alphabet,    \* byte alphabet for SpecByte
  MaxHeld,     \* state constraint: premise of C04 (at most this many outstanding)
  Emit         \* BOOLEAN: print edges

---------------------------------------------------------------------------
(* constant values that a .cfg file cannot write (tuples) *)
Cc_ano   == {<<123, 0>>}
Cc_none  == {}
Cc_ctl   == {<<k, v>> : k \in {1, 5, 7, 71, 74}, v \in {0, 127}} \cup {<<k, v>> : k \in {64, 65}, v \in {63, 64}}
            \cup {<<k, 0>> : k \in {121, 123, 2, 120}}
Cc_small == {<<k, v>> : k \in {1, 74}, v \in {0, 127}} \cup {<<k, v>> : k \in {64, 65}, v \in {63, 64}}
            \cup {<<k, 0>> : k \in {121, 123, 2}}
Pb_two   == {<<0, 0>>, <<1, 127>>}
Pb_none  == {}
Pb_some  == {<<0, 0>>, <<127, 127>>, <<1, 0>>, <<0, 1>>}
\* representative bytes. 147/131/179/227 = note-on / note-off / CC / pitch bend on the listened
\* channel 3, 149/229 the same on foreign channel 5, 163/195/211 unsupported channel messages
\* (0xA3, 0xC3 one data byte, 0xD3 one data byte), 240..247 system common, 248/254/255 real time.
Alpha_wire  == {147, 149, 131, 179, 195, 240, 247, 248, 254, 0, 60, 123}
Alpha_pb    == {227, 229, 179, 163, 211, 241, 242, 243, 246, 244, 248, 255, 0, 1, 121, 127}
Alpha_wide  == {147, 149, 131, 179, 163, 195, 211, 240, 241, 247, 248, 254, 0, 1, 60, 123}

Proj == <<gate, note, vel, pb, cc.mod, cc.vol, cc.cut, cc.res, cc.pt, porta, sust>>

\* premise of C04: the bounded list is never over-filled (the overflow action is modelled, but the
\* exhaustive run stays inside the premise)
Premise == Len(held) <= MaxHeld /\ ~over

\* stamps only matter up to their order: identify states that differ by an order-preserving
\* renumbering (keeps the state space finite)
Canon == {<<Cardinality({q \in outs : q[1] < p[1]}), p[2]>> : p \in outs}
View == <<rs, d1, chan, held, gate, rise, fall, note, vel, pb, cc, porta, sust, retrig, prio, over, Canon>>

EmitEdge(op) == (Emit /\ Premise') => PrintT(<<"EDGE", ToJson(<<View, op, View', Proj'>>)>>)

MsgOps ==
       {[op |-> "msg", s |-> 144 + Channel, a |-> n, b |-> v] : n \in Notes, v \in Vels}
  \cup {[op |-> "msg", s |-> 128 + Channel, a |-> n, b |-> 64] : n \in Notes}
  \cup {[op |-> "msg", s |-> 176 + Channel, a |-> p[1], b |-> p[2]] : p \in CcMsgs}
  \cup {[op |-> "msg", s |-> 224 + Channel, a |-> p[1], b |-> p[2]] : p \in PbMsgs}
  \cup {[op |-> "msg", s |-> 144 + Foreign, a |-> n, b |-> 100] : n \in Notes}

NextMsg ==
  \/ \E o \in MsgOps : Msg(o.s, o.a, o.b) /\ EmitEdge(o)
  \/ PollRising  /\ EmitEdge([op |-> "poll_r", r |-> rise])
  \/ PollFalling /\ EmitEdge([op |-> "poll_f", r |-> fall])
  \/ \E m \in BOOLEAN : SetRetrig(m) /\ EmitEdge([op |-> "retrig", m |-> m])
  \/ \E p \in Prios : SetPrio(p) /\ EmitEdge([op |-> "prio", p |-> p])

NextByte ==
  \/ \E b \in Alphabet : Byte(b) /\ EmitEdge([op |-> "byte", b |-> b])
  \/ PollRising  /\ EmitEdge([op |-> "poll_r", r |-> rise])
  \/ PollFalling /\ EmitEdge([op |-> "poll_f", r |-> fall])

MCInit == InitFor(Channel) /\ (Emit => PrintT(<<"INIT", ToJson(<<View, Proj>>)>>))

SpecMsg  == MCInit /\ [][NextMsg]_vars
SpecByte == MCInit /\ [][NextByte]_vars

---------------------------------------------------------------------------
(* C06: consequences of the framing rules, as action properties over bytes *)

\* a status byte of any kind never changes an output; system common cancels running status
Prop_C06_status ==
  [][ \A b \in Alphabet \cap (128..255) :
        Byte(b) => /\ UNCHANGED voiceVars
                   /\ (IsRealTime(b) => UNCHANGED wireVars)
                   /\ (IsSysCommon(b) => rs' = 0 /\ d1' = -1)
                   /\ (IsChanStatus(b) => rs' = b /\ d1' = -1) ]_vars

\* outputs change only when a data byte completes a message of a supported type on the listened
\* channel
Prop_C06_complete ==
  [][ <<held, gate, note, vel, pb, cc, porta, sust, nm>>' # <<held, gate, note, vel, pb, cc, porta, sust, nm>> =>
        /\ rs # 0 /\ rs % 16 = chan
        /\ (rs \div 16) \in {8, 9, 11, 14}
        /\ d1 # -1 ]_vars

\* C18: a controller number outside the documented nine changes nothing; 121 restores defaults
Prop_C18_route ==
  [][ \A p \in CcMsgs :
        Msg(176 + Channel, p[1], p[2]) =>
          /\ (p[1] \notin {1, 7, 71, 74, 5, 65, 64, 121, 123} => UNCHANGED voiceVars)
          /\ (p[1] = 121 => pb' = 8192 /\ cc' = CcZero /\ porta' /\ sust'
                            /\ UNCHANGED <<noteVars, modeVars>>)
          /\ (p[1] \in {1, 7, 71, 74, 5} => cc'[CcField(p[1])] = p[2]
                            /\ \A f \in DOMAIN cc : f # CcField(p[1]) => cc'[f] = cc[f])
          /\ (p[1] = 65 => porta' = (p[2] >= 64))
          /\ (p[1] = 64 => sust' = (p[2] >= 64))
          /\ (p[1] # 123 => UNCHANGED noteVars) ]_vars
=============================================================================
