SPECIFICATION MCSpec
CONSTANTS
  AccBits = 6
  IdxBits = 3
  Rollover = "carry"
  FracMode = "cell"
  SineWrap = "size"
  SinTab <- Sin8
  Incs = {0, 1, 3, 16, 63, 64, 65, 128}
  Emit = FALSE
CONSTRAINT Bound
INVARIANTS TypeOK Inv_C10_range Inv_C10_sqr Inv_C10_tri Inv_C11_drift
PROPERTIES Prop_C11_tick
CHECK_DEADLOCK FALSE
