SPECIFICATION TSpec
CONSTANTS
  HeldCap = 32
  AnoFalling = "edge"
  StrayOffFalling = "never"
INVARIANT TInv
POSTCONDITION Report
CHECK_DEADLOCK FALSE
