\* every-transition replay graph: the real configuration of a 100 Hz ribbon
SPECIFICATION MCSpec
CONSTANTS
  ResetOnTap = "always"
  Cfgs <- Cfgs100
  Samples = {1, 5, 9}
  Emit = TRUE
CHECK_DEADLOCK FALSE
