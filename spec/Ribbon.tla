------------------------------- MODULE Ribbon -------------------------------
(***************************************************************************)
(* Soft-pot ribbon controller (src/ribbon_controller.rs).                   *)
(*                                                                          *)
(* Samples are integers (ADC codes); a sample is "in range" (finger down)   *)
(* iff it is below cfg.thr.  cfg = [ig, dc, cap, thr]:                      *)
(*   ig  = settling samples to ignore at the start of a press               *)
(*   dc  = newest samples to discard (finger-lift allowance)                *)
(*   cap = capacity of the capture buffer (cap > dc)                        *)
(* A press is reported once an unbroken run of in-range samples has filled  *)
(* the capture buffer after the settling samples were skipped; the number   *)
(* of skipped samples is Max(ig,1)-1 as built (the existing tests pin 180   *)
(* samples at 10 kHz), so the run length needed is L = cap + Max(ig,1) - 1. *)
(*                                                                          *)
(* State in the vocabulary of C15/C16:                                      *)
(*   run  = length of the current unbroken run of in-range samples (<= L)   *)
(*   win  = the last <= cap samples of the current run that were captured   *)
(*   sum  = sum of the oldest cap-dc elements of win once win is full       *)
(*   pressing, jp, jr = press level and its two self-clearing edge latches  *)
(*   val  = <<sum, n>> of the average last taken (retained after release)   *)
(*                                                                          *)
(* Switch ResetOnTap = "only-if-pressing": the code as first pinned resets  *)
(* its counters on an out-of-range sample only if a press had been reported *)
(* so two short taps add up to a press.                                     *)
(***************************************************************************)
EXTENDS Integers, Sequences

CONSTANTS ResetOnTap    \* "always" | "only-if-pressing"

VARIABLES cfg, run, win, sum, pressing, jp, jr, val

rVars == <<cfg, run, win, sum, pressing, jp, jr, val>>

MaxR(a, b) == IF a >= b THEN a ELSE b
Skip == MaxR(cfg.ig, 1) - 1          \* settling samples skipped
Need == cfg.cap + Skip               \* unbroken run needed for a press
Take == cfg.cap - cfg.dc             \* samples averaged

RECURSIVE SumSeq(_)
SumSeq(s) == IF s = <<>> THEN 0 ELSE Head(s) + SumSeq(Tail(s))

InRange(x) == x < cfg.thr

Poll(x) ==
  IF InRange(x) THEN
    LET run2 == IF run < Need THEN run + 1 ELSE run
        captured == run2 > Skip
        w1   == IF captured THEN Append(win, x) ELSE win
        w2   == IF Len(w1) > cfg.cap THEN Tail(w1) ELSE w1
        full == Len(w2) = cfg.cap
        \* the averaged window is the oldest Take elements of the full buffer; maintained
        \* incrementally: a new sample pushes the window along by one
        sum2 == IF ~captured THEN sum
                ELSE IF Len(w1) > cfg.cap THEN sum - w1[1] + w1[Take + 1]
                ELSE IF Len(w1) <= Take THEN sum + x
                ELSE sum
    IN /\ run' = run2 /\ win' = w2 /\ sum' = sum2
       /\ pressing' = full
       /\ jp' = (jp \/ (full /\ ~pressing))
       /\ val' = IF full THEN <<sum2, Take>> ELSE val
       /\ UNCHANGED <<cfg, jr>>
  ELSE
    /\ IF pressing \/ ResetOnTap = "always"
         THEN run' = 0 /\ win' = <<>> /\ sum' = 0
         ELSE UNCHANGED <<run, win, sum>>
    /\ pressing' = FALSE
    /\ jr' = (jr \/ pressing)
    /\ UNCHANGED <<cfg, jp, val>>

PollJP == jp' = FALSE /\ UNCHANGED <<cfg, run, win, sum, pressing, jr, val>>
PollJR == jr' = FALSE /\ UNCHANGED <<cfg, run, win, sum, pressing, jp, val>>

RInit(c) == /\ cfg = c /\ run = 0 /\ win = <<>> /\ sum = 0
            /\ pressing = FALSE /\ jp = FALSE /\ jr = FALSE /\ val = <<0, 1>>

\* ---- C15 ----
Inv_C15_press == pressing <=> run >= Need
Inv_C15_window == /\ Len(win) = (IF run > Skip THEN (IF run - Skip > cfg.cap THEN cfg.cap ELSE run - Skip) ELSE 0)
                  /\ (pressing => Len(win) = cfg.cap)
\* ---- C16 ----
Inv_C16_sum == (Len(win) = cfg.cap) => sum = SumSeq(SubSeq(win, 1, Take))
Inv_C16_partial == (Len(win) < cfg.cap) => sum = SumSeq(SubSeq(win, 1, IF Len(win) < Take THEN Len(win) ELSE Take))
=============================================================================
