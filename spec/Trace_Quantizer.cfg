SPECIFICATION TSpec
CONSTANTS
  PC = 12
  MaxOct = 10
  SU = 1000000
  HystU = 100000
  TolU = 120
  CacheCheck = "pc"
  RuleF <- Rule
POSTCONDITION Report
CHECK_DEADLOCK FALSE
