---------------------------- MODULE GlideHullInd ----------------------------
(***************************************************************************)
(* The one-pole step of Glide.tla (C13) with UNBOUNDED integer inputs and   *)
(* any pole numerator 0..3 (over 4), any schedule of pole changes: the      *)
(* output never leaves the range spanned by its initial value and the       *)
(* inputs seen so far (inductive invariant), and while the input is held it *)
(* approaches it monotonically without crossing it (action invariant).      *)
(* TLC checks the same step for inputs in a small range only.               *)
(*   apalache-mc check --init=Init    --inv=IndInv --length=0 GlideHullInd.tla *)
(*   apalache-mc check --init=IndInit --inv=IndInv --length=1 GlideHullInd.tla *)
(*   apalache-mc check --init=IndInit --inv=Approach --length=1 GlideHullInd.tla *)
(***************************************************************************)
EXTENDS Integers

VARIABLES
  \* @type: Int;
  pole,
  \* @type: Int;
  y,
  \* @type: Int;
  x,
  \* @type: Int;
  lo,
  \* @type: Int;
  hi

Tz(n, d) == IF n >= 0 THEN n \div d ELSE -((-n) \div d)

Init == pole \in 0..3 /\ y = 0 /\ x = 0 /\ lo = 0 /\ hi = 0

SetPole == pole' \in 0..3 /\ UNCHANGED <<y, x, lo, hi>>

Process ==
  \E v \in Int :
    /\ y' = v + Tz(pole * (y - v), 4)
    /\ x' = v
    /\ lo' = (IF v < lo THEN v ELSE lo) /\ hi' = (IF v > hi THEN v ELSE hi)
    /\ pole' = pole

Next == SetPole \/ Process

IndInv == pole \in 0..3 /\ lo <= y /\ y <= hi /\ lo <= x /\ x <= hi

IndInit == pole \in Int /\ y \in Int /\ x \in Int /\ lo \in Int /\ hi \in Int /\ IndInv

\* held input: monotone approach, no crossing (an action invariant: it speaks about a step)
Approach ==
  (x' = x) => /\ (y >= x => (y' <= y /\ y' >= x))
              /\ (y <= x => (y' >= y /\ y' <= x))
=============================================================================
