---------------------------- MODULE PhaseAccInd ----------------------------
(***************************************************************************)
(* Unbounded argument for the roll-over law of PhaseAcc.tla at the real     *)
(* width (24 bits), discharged by Apalache as an inductive invariant:       *)
(* with prog = the sum of the increments applied since the last reset,      *)
(*      acc = prog % 2^24   and   rolled <=> prog >= 2^24                   *)
(* for EVERY increment (also multiples of 2^24 and increments far above     *)
(* it), which is the design-level reason why a phase of constant increment  *)
(* i >= 1 ends at exactly tick ceil(2^24 / i).                              *)
(*   apalache-mc check --init=IndInit --inv=IndInv --length=1 PhaseAccInd.tla *)
(*   apalache-mc check --init=Init    --inv=IndInv --length=0 PhaseAccInd.tla *)
(***************************************************************************)
EXTENDS Integers

VARIABLES
  \* @type: Int;
  acc,
  \* @type: Int;
  inc,
  \* @type: Bool;
  rolled,
  \* @type: Int;
  prog

M == 16777216

Init == acc = 0 /\ inc = 0 /\ rolled = FALSE /\ prog = 0

Tick ==
  /\ acc' = (acc + inc) % M
  /\ rolled' = (rolled \/ acc + inc >= M)
  /\ prog' = prog + inc
  /\ inc' = inc

SetInc == /\ \E i \in 0..2147483647 : inc' = i
          /\ UNCHANGED <<acc, rolled, prog>>

Reset == acc' = 0 /\ rolled' = FALSE /\ prog' = 0 /\ inc' = inc

Next == Tick \/ SetInc \/ Reset

IndInv ==
  /\ acc >= 0 /\ acc < M
  /\ inc >= 0
  /\ prog >= 0
  /\ acc = prog % M
  /\ rolled = (prog >= M)

\* an arbitrary state satisfying the invariant (Apalache wants every variable assigned)
IndInit ==
  /\ prog \in Nat
  /\ inc \in Nat
  /\ acc = prog % M
  /\ rolled = (prog >= M)
=============================================================================
