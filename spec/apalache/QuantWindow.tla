----------------------------- MODULE QuantWindow -----------------------------
(***************************************************************************)
(* The hysteresis window of Quantizer.tla (C09, C19) at the real scale      *)
(* (units of 1/12 uV, window = the note's semitone bucket widened by a      *)
(* tenth of a semitone on each side), for EVERY note and EVERY input:       *)
(*  - an input inside the window leaves a fraction in (-0.1, 1.1) semitone  *)
(*    whose sum with the stairstep is the input (C19);                      *)
(*  - the bucket a memoryless conversion lands in is inside the window, so  *)
(*    the note just reported is kept for the same input (C09: stable);      *)
(*  - noise narrower than the hysteresis around an input that was converted *)
(*    inside its bucket can never leave the window (C09: no chatter).       *)
(*   apalache-mc check --init=Init --inv=Window --length=0 QuantWindow.tla  *)
(***************************************************************************)
EXTENDS Integers

VARIABLES
  \* @type: Int;
  n,
  \* @type: Int;
  u,
  \* @type: Int;
  w

SU == 1000000
HystU == 100000
Volt(k) == k * SU
InWindow(k, v) == Volt(k) - HystU < v /\ v < Volt(k) + SU + HystU
InBucket(k, v) == Volt(k) <= v /\ v < Volt(k) + SU
AbsV(x) == IF x < 0 THEN -x ELSE x

Init == n \in 0..131 /\ u \in Int /\ w \in Int
Next == UNCHANGED <<n, u, w>>

Window ==
  /\ (InWindow(n, u) => (-HystU < u - Volt(n) /\ u - Volt(n) < SU + HystU /\ Volt(n) + (u - Volt(n)) = u))
  /\ (InBucket(n, u) => InWindow(n, u))
  /\ ((InBucket(n, u) /\ AbsV(w - u) < HystU) => InWindow(n, w))
  \* outside the window the note is not kept: the windows of notes two apart are disjoint
  /\ ~(InWindow(n, u) /\ InWindow(n + 2, u))
=============================================================================
