---------------------------- MODULE MidiGateInd ----------------------------
(***************************************************************************)
(* The gate and edge-latch logic of Midi.tla's voice layer (C04's gate      *)
(* clause, C05) with the held-note list abstracted to its length n and the  *)
(* list capacity cap symbolic: for EVERY capacity and every sequence of     *)
(* note-ons, note-offs (removing any number r of entries), All-Notes-Off,   *)
(* mode switches and polls, the gate is high exactly while a note-on is     *)
(* remembered, a pending rising edge implies a high gate, a pending falling *)
(* edge a low one, and the two latches are never pending together.          *)
(*   apalache-mc check --init=Init    --inv=IndInv --length=0 MidiGateInd.tla *)
(*   apalache-mc check --init=IndInit --inv=IndInv --length=1 MidiGateInd.tla *)
(***************************************************************************)
EXTENDS Integers

VARIABLES
  \* @type: Int;
  cap,
  \* @type: Int;
  n,
  \* @type: Bool;
  gate,
  \* @type: Bool;
  rise,
  \* @type: Bool;
  fall,
  \* @type: Bool;
  retrig

Init == cap \in Nat /\ cap >= 1 /\ n = 0 /\ gate = FALSE /\ rise = FALSE /\ fall = FALSE /\ retrig = FALSE

NoteOn ==
  /\ n' = IF n < cap THEN n + 1 ELSE n
  /\ gate' = TRUE /\ fall' = FALSE
  /\ rise' = IF retrig \/ ~gate THEN TRUE ELSE rise
  /\ UNCHANGED <<cap, retrig>>

\* a note-off removes every entry of its key: r of the n entries (r = 0: a key that is not held)
NoteOff ==
  \E r \in 0..n :
    /\ n' = n - r
    /\ IF n - r = 0
         THEN gate' = FALSE /\ rise' = FALSE /\ fall' = (IF gate THEN TRUE ELSE fall)
         ELSE UNCHANGED <<gate, rise, fall>>
    /\ UNCHANGED <<cap, retrig>>

AllNotesOff ==
  /\ n' = 0 /\ gate' = FALSE /\ rise' = FALSE /\ fall' = (IF gate THEN TRUE ELSE fall)
  /\ UNCHANGED <<cap, retrig>>

PollRise == rise' = FALSE /\ UNCHANGED <<cap, n, gate, fall, retrig>>
PollFall == fall' = FALSE /\ UNCHANGED <<cap, n, gate, rise, retrig>>
SetMode  == retrig' \in BOOLEAN /\ UNCHANGED <<cap, n, gate, rise, fall>>

Next == NoteOn \/ NoteOff \/ AllNotesOff \/ PollRise \/ PollFall \/ SetMode

IndInv ==
  /\ cap >= 1 /\ n >= 0 /\ n <= cap
  /\ (gate <=> n > 0)
  /\ (rise => gate)
  /\ (fall => ~gate)
  /\ ~(rise /\ fall)

IndInit ==
  /\ cap \in Nat /\ n \in Nat
  /\ gate \in BOOLEAN /\ rise \in BOOLEAN /\ fall \in BOOLEAN /\ retrig \in BOOLEAN
  /\ IndInv
=============================================================================
