---------------------------- MODULE ParamsLemmas ----------------------------
(***************************************************************************)
(* The clamp lemmas of Params.tla (C20) for ALL integers (order keys of     *)
(* floats are integers, the bounds any lo <= hi): range, identity inside,   *)
(* nearest bound outside, idempotence, monotonicity.  MC_Params checks them *)
(* by enumeration on -40..40 only.                                          *)
(*   apalache-mc check --init=Init --inv=Lemmas --length=0 ParamsLemmas.tla *)
(***************************************************************************)
EXTENDS Integers

VARIABLES
  \* @type: Int;
  k,
  \* @type: Int;
  j,
  \* @type: Int;
  lo,
  \* @type: Int;
  hi

ClampKey(v, a, b) == IF v < a THEN a ELSE IF v > b THEN b ELSE v
NoteClamp(n) == IF n > 11 THEN 11 ELSE n
ChanClamp(c) == IF c > 15 THEN 15 ELSE c

Init == k \in Int /\ j \in Int /\ lo \in Int /\ hi \in Int /\ lo <= hi
Next == UNCHANGED <<k, j, lo, hi>>

Lemmas ==
  /\ lo <= ClampKey(k, lo, hi) /\ ClampKey(k, lo, hi) <= hi
  /\ ((lo <= k /\ k <= hi) => ClampKey(k, lo, hi) = k)
  /\ (k < lo => ClampKey(k, lo, hi) = lo) /\ (k > hi => ClampKey(k, lo, hi) = hi)
  /\ ClampKey(ClampKey(k, lo, hi), lo, hi) = ClampKey(k, lo, hi)
  /\ (j <= k => ClampKey(j, lo, hi) <= ClampKey(k, lo, hi))
  /\ (k >= 0 => (NoteClamp(k) \in 0..11 /\ ChanClamp(k) \in 0..15))
  /\ (k \in 0..11 => NoteClamp(k) = k) /\ (k \in 0..15 => ChanClamp(k) = k)
=============================================================================
