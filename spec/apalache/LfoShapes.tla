------------------------------ MODULE LfoShapes ------------------------------
(***************************************************************************)
(* The exact wave shapes of Lfo.tla (saw, down-saw, square, triangle) at    *)
(* the REAL width 2^24, with the phase a and the step d symbolic: for EVERY *)
(* phase and EVERY step Apalache shows the documented range, the anchors of *)
(* the triangle (C10) and that the triangle never moves by more than four   *)
(* times the phase step, also across the wrap (C12).  TLC enumerates the    *)
(* same statements for 6- and 8-bit accumulators only; the sine, being a    *)
(* table, is covered by the 2^24-phase sweep of the thorough tier.          *)
(*   apalache-mc check --init=Init --inv=Shapes --length=0 LfoShapes.tla    *)
(***************************************************************************)
EXTENDS Integers

VARIABLES
  \* @type: Int;
  a,
  \* @type: Int;
  d

M == 16777216

SawAt(p)  == 2 * p - M
DownAt(p) == -SawAt(p)
SqrAt(p)  == IF 2 * p < M THEN 1 ELSE -1
TriAt(p)  == IF 4 * p < M THEN 4 * p
             ELSE IF 4 * p < 3 * M THEN 2 * M - 4 * p
             ELSE 4 * p - 4 * M
AbsV(x) == IF x < 0 THEN -x ELSE x

Init == a \in 0..(M - 1) /\ d \in 0..(M - 1)
Next == UNCHANGED <<a, d>>

\* units: saw and triangle are scaled by M (value = X / M)
Shapes ==
  /\ -M <= SawAt(a) /\ SawAt(a) < M /\ DownAt(a) = -SawAt(a)
  /\ -M <= TriAt(a) /\ TriAt(a) <= M
  /\ SqrAt(a) \in {1, -1} /\ (SqrAt(a) = 1 <=> a < M \div 2)
  /\ (a = 0 => TriAt(a) = 0) /\ (a = M \div 4 => TriAt(a) = M)
  /\ (a = M \div 2 => TriAt(a) = 0) /\ (a = 3 * (M \div 4) => TriAt(a) = -M)
  \* continuity, including the step from the end of one cycle into the next
  /\ AbsV(TriAt((a + d) % M) - TriAt(a)) <= 4 * d
  \* the triangle is in phase with the sine: same sign as the first / second half cycle
  /\ (a <= M \div 2 => TriAt(a) >= 0) /\ (a >= M \div 2 => TriAt(a) <= 0)
=============================================================================
