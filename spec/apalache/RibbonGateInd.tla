--------------------------- MODULE RibbonGateInd ---------------------------
(***************************************************************************)
(* The press logic of Ribbon.tla (C15) for EVERY configuration: settling    *)
(* count ig >= 0 and buffer capacity cap >= 1 are symbolic, the capture     *)
(* window is abstracted to its length wl.  Apalache discharges, as an       *)
(* inductive invariant, that a press is reported exactly while the unbroken *)
(* run of in-range samples has reached cap + max(ig,1) - 1, that the window *)
(* is full exactly then, and that an out-of-range sample always restarts    *)
(* the count (TLC checks the same on two fixed configurations, the traces   *)
(* on 16 sample rates).                                                     *)
(*   apalache-mc check --init=Init    --inv=IndInv --length=0 RibbonGateInd.tla *)
(*   apalache-mc check --init=IndInit --inv=IndInv --length=1 RibbonGateInd.tla *)
(***************************************************************************)
EXTENDS Integers

VARIABLES
  \* @type: Int;
  ig,
  \* @type: Int;
  cap,
  \* @type: Int;
  run,
  \* @type: Int;
  wl,
  \* @type: Bool;
  pressing,
  \* @type: Bool;
  jp,
  \* @type: Bool;
  jr

MaxR(a, b) == IF a >= b THEN a ELSE b
MinR(a, b) == IF a <= b THEN a ELSE b
Skip == MaxR(ig, 1) - 1
Need == cap + Skip

Init ==
  /\ ig \in Nat /\ cap \in Nat /\ cap >= 1
  /\ run = 0 /\ wl = 0 /\ pressing = FALSE /\ jp = FALSE /\ jr = FALSE

PollIn ==
  LET run2 == IF run < Need THEN run + 1 ELSE run
      wl2  == IF run2 > Skip THEN MinR(wl + 1, cap) ELSE wl
      full == wl2 = cap
  IN /\ run' = run2 /\ wl' = wl2
     /\ pressing' = full
     /\ jp' = (jp \/ (full /\ ~pressing))
     /\ UNCHANGED <<ig, cap, jr>>

PollOut ==
  /\ run' = 0 /\ wl' = 0 /\ pressing' = FALSE
  /\ jr' = (jr \/ pressing)
  /\ UNCHANGED <<ig, cap, jp>>

TakeJP == jp' = FALSE /\ UNCHANGED <<ig, cap, run, wl, pressing, jr>>
TakeJR == jr' = FALSE /\ UNCHANGED <<ig, cap, run, wl, pressing, jp>>

Next == PollIn \/ PollOut \/ TakeJP \/ TakeJR

IndInv ==
  /\ ig >= 0 /\ cap >= 1
  /\ run >= 0 /\ run <= Need
  /\ wl = (IF run > Skip THEN MinR(run - Skip, cap) ELSE 0)
  /\ (pressing <=> run >= Need)
  /\ (pressing <=> wl = cap)

IndInit ==
  /\ ig \in Nat /\ cap \in Nat /\ run \in Nat /\ wl \in Nat
  /\ pressing \in BOOLEAN /\ jp \in BOOLEAN /\ jr \in BOOLEAN
  /\ IndInv
=============================================================================
