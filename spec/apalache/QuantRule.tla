----------------------------- MODULE QuantRule -----------------------------
(***************************************************************************)
(* The memoryless quantizer rule of Quantizer.tla (C08) in REAL units (12    *)
(* pitch classes, voltages in units of 1/12 uV) over three octaves of notes *)
(* (0..35; the rule is the same in every octave, and eleven octaves exceed  *)
(* what Apalache finishes in an hour here), with the scale A, two inputs    *)
(* u <= u2 and the answers r, r2 of the rule left symbolic: for EVERY       *)
(* non-empty scale and EVERY pair of inputs in [0 V, 2 V] (24 million       *)
(* values each) the answer is an allowed note, is the                       *)
(* bucket note when there is one and a nearest allowed note otherwise,      *)
(* reproduces an allowed note's own voltage and is monotone in the input    *)
(* (TLC can only enumerate this for 3 or 4 pitch classes).                  *)
(*   apalache-mc check --init=Init --inv=Inv --length=0 QuantRule.tla       *)
(*   apalache-mc check --init=InitAny --inv=Defined --length=0 QuantRule.tla *)
(***************************************************************************)
EXTENDS Integers, FiniteSets

VARIABLES
  \* @type: Set(Int);
  A,
  \* @type: Int;
  u,
  \* @type: Int;
  u2,
  \* @type: Int;
  r,
  \* @type: Int;
  r2

PC == 12
SU == 1000000
Top == 35
VMax == 24000000

Volt(n) == n * SU
AbsQ(x) == IF x < 0 THEN -x ELSE x

Cand(n) == (n % PC) \in A
InBucket(n, v) == Cand(n) /\ Volt(n) <= v /\ v < Volt(n) + SU
HasBucket(v) == \E n \in 0..Top : InBucket(n, v)
IsNearest(n, v) == Cand(n) /\ \A m \in 0..Top : Cand(m) => AbsQ(Volt(n) - v) <= AbsQ(Volt(m) - v)
InRuleSet(n, v) == IF HasBucket(v) THEN InBucket(n, v) ELSE IsNearest(n, v)
\* n = Rule(A, v): the lowest member of the rule set
IsRule(n, v) == n \in 0..Top /\ InRuleSet(n, v) /\ \A m \in 0..Top : InRuleSet(m, v) => n <= m

InitAny ==
  /\ A \in SUBSET (0..11)
  /\ A # {}
  /\ u \in 0..VMax
  /\ u2 \in 0..VMax
  /\ u <= u2
  /\ r \in 0..Top
  /\ r2 \in 0..Top

Init == InitAny /\ IsRule(r, u) /\ IsRule(r2, u2)

Next == UNCHANGED <<A, u, u2, r, r2>>

\* the rule always has an answer
Defined == \E n \in 0..Top : InRuleSet(n, u)   \* a non-empty finite set has a lowest member

Inv ==
  /\ (r % PC) \in A
  /\ (HasBucket(u) => (Volt(r) <= u /\ u < Volt(r) + SU))
  /\ (~HasBucket(u) => \A m \in 0..Top : Cand(m) => AbsQ(Volt(r) - u) <= AbsQ(Volt(m) - u))
  /\ r <= r2
  /\ \A n \in 0..24 : (Cand(n) /\ u = Volt(n)) => r = n
=============================================================================
