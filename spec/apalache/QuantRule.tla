----------------------------- MODULE QuantRule -----------------------------
(***************************************************************************)
(* The memoryless quantizer rule of Quantizer.tla (C08) at the REAL scale   *)
(* (12 pitch classes, 11 octaves of notes, voltages in units of 1/12 uV),   *)
(* with the scale A, the input u and a second input u2 >= u left symbolic:  *)
(* Apalache shows for EVERY non-empty scale and EVERY pair of inputs in     *)
(* [0 V, 10 V] that the rule is well defined, answers with an allowed note, *)
(* answers with the bucket note when there is one and with a nearest        *)
(* allowed note otherwise, reproduces an allowed note's own voltage, and is *)
(* monotone in the input (which TLC can only enumerate for 3 or 4 pitch     *)
(* classes).                                                                *)
(*   apalache-mc check --init=Init --inv=Inv --length=0 QuantRule.tla       *)
(***************************************************************************)
EXTENDS Integers, FiniteSets

VARIABLES
  \* @type: Set(Int);
  A,
  \* @type: Int;
  u,
  \* @type: Int;
  u2

PC == 12
SU == 1000000
Top == 131
VMax == 120000000

Volt(n) == n * SU
AbsQ(x) == IF x < 0 THEN -x ELSE x

Cands == {n \in 0..Top : (n % PC) \in A}
Bucket(v) == {n \in Cands : Volt(n) <= v /\ v < Volt(n) + SU}
Nearest(v) == {n \in Cands : \A m \in Cands : AbsQ(Volt(n) - v) <= AbsQ(Volt(m) - v)}
RuleSet(v) == IF Bucket(v) # {} THEN Bucket(v) ELSE Nearest(v)
Rule(v) == CHOOSE n \in RuleSet(v) : \A m \in RuleSet(v) : n <= m

Init ==
  /\ A \in SUBSET (0..11)
  /\ A # {}
  /\ u \in 0..VMax
  /\ u2 \in 0..VMax
  /\ u <= u2

Next == UNCHANGED <<A, u, u2>>

Inv ==
  /\ RuleSet(u) # {}
  /\ Rule(u) \in Cands
  /\ (Rule(u) % PC) \in A
  /\ (Bucket(u) # {} => (Volt(Rule(u)) <= u /\ u < Volt(Rule(u)) + SU))
  /\ (Bucket(u) = {} => \A m \in Cands : AbsQ(Volt(Rule(u)) - u) <= AbsQ(Volt(m) - u))
  /\ Rule(u) <= Rule(u2)
  /\ \A n \in Cands : n <= 120 => (u = Volt(n) => Rule(u) = n)
=============================================================================
