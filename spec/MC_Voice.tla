------------------------------- MODULE MC_Voice -------------------------------
EXTENDS Voice, TLC
CONSTANTS Notes, Channel, StepA
AttT == [i \in 0..2 |-> 2 * i]
DecT == [i \in 0..2 |-> 4 - 2 * i]
Ops == {<<144 + Channel, n, v>> : n \in Notes, v \in {0, 100}} \cup {<<128 + Channel, n, 0>> : n \in Notes}
       \cup {<<176 + Channel, 123, 0>>}
MCInit == VInit(Channel, StepA)
MCNext == (\E o \in Ops : MidiStep(o[1], o[2], o[3])) \/ Poll \/ Service
MCSpec == MCInit /\ [][MCNext]_voiceAll /\ WF_voiceAll(Poll) /\ WF_voiceAll(Service)
Premise == ~over
VView == <<rs, d1, chan, held, gate, rise, fall, note, vel, pb, cc, porta, sust, retrig, prio, over,
           adsrVars, pc, kind>>
=============================================================================
