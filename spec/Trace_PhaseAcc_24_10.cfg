SPECIFICATION TSpec
CONSTANTS
  AccBits = 24
  IdxBits = 10
  Rollover = "carry"
  FracMode = "cell"
INVARIANT TInv
POSTCONDITION Report
CHECK_DEADLOCK FALSE
