SPECIFICATION TSpec
CONSTANTS
  AccBits = 6
  IdxBits = 3
  Rollover = "carry"
  FracMode = "cell"
INVARIANT TInv
POSTCONDITION Report
CHECK_DEADLOCK FALSE
