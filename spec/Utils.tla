------------------------------- MODULE Utils -------------------------------
(***************************************************************************)
(* The small numeric helpers every component is built from (src/utils.rs):  *)
(* floor log2 (sizes the index field of the phase accumulators from the     *)
(* table lengths), absolute value, "almost equal" (the glide's set_time     *)
(* cache test) and linear interpolation (every table read-out).  Floats are *)
(* order keys (TraceLib/Params), so order statements are exact.             *)
(***************************************************************************)
EXTENDS Integers

\* ilog_2(x): number of halvings until at most 1 remains; 0 for 0 and 1
RECURSIVE ILog2(_)
ILog2(x) == IF x <= 1 THEN 0 ELSE 1 + ILog2(x \div 2)

\* what it is for: 2^ILog2(x) <= x < 2^(ILog2(x)+1)
Lemma_ilog(D) == \A x \in D : x >= 1 => (2 ^ ILog2(x) <= x /\ x < 2 ^ (ILog2(x) + 1))
Lemma_ilog_pow(N) == \A k \in 0..N : ILog2(2 ^ k) = k /\ (k >= 1 => ILog2(2 ^ k - 1) = k - 1)

\* fabs on order keys: K(-v) = -K(v)
FabsKey(k) == IF k < 0 THEN -k ELSE k

\* is_almost(v1, v2, eps): the verdict for a difference known to be at most / more than eps
\* cls = "within": |v1 - v2| <= eps exactly; "beyond": |v1 - v2| > the f32 after eps;
\*       "edge": in between (either answer); "nan": an argument is NaN (not specified)
AlmostOK(cls, res) ==
  CASE cls = "within" -> res = TRUE
    [] cls = "beyond" -> res = FALSE
    [] cls = "nan"    -> TRUE        \* NaN arguments: nothing is specified
    [] OTHER          -> TRUE

\* linear_interp(y0, y1, f) for f in [0, 1] stays in the hull of its end points up to the rounding of the
\* larger of them (the difference y1 - y0 is rounded before it is scaled), is exact at f = 0 and monotone
\* in f.  Stated on Q24 images of values of magnitude at most 2 (the lookup tables live in [-1, 1]): one
\* float step there is at most two Q24 units.
InHull(r, y0, y1) == (IF y0 <= y1 THEN y0 ELSE y1) - 2 <= r /\ r <= (IF y0 <= y1 THEN y1 ELSE y0) + 2

\* the integer interpolation of PhaseAcc!Lerp has the same three properties (checked in MC_Utils)
LerpI(y0, y1, f, c) == y0 + ((y1 - y0) * f) \div c
Lemma_lerp(Y, c) == \A y0 \in Y : \A y1 \in Y : \A f \in 0..c :
                      /\ LerpI(y0, y1, 0, c) = y0 /\ LerpI(y0, y1, c, c) = y1
                      /\ (IF y0 <= y1 THEN y0 ELSE y1) <= LerpI(y0, y1, f, c)
                      /\ LerpI(y0, y1, f, c) <= (IF y0 <= y1 THEN y1 ELSE y0)
                      /\ (f < c => (y0 <= y1 => LerpI(y0, y1, f, c) <= LerpI(y0, y1, f + 1, c)))
                      /\ (f < c => (y0 >= y1 => LerpI(y0, y1, f, c) >= LerpI(y0, y1, f + 1, c)))
=============================================================================
