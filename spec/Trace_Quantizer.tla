--------------------------- MODULE Trace_Quantizer ---------------------------
(***************************************************************************)
(* Implementation -> specification trace validation for the quantizer       *)
(* (C07, C08, C09, C19) at real scale: 12 pitch classes, 11 octaves,        *)
(* voltages in units of 1/12 microvolt.                                     *)
(*                                                                          *)
(* Events:                                                                  *)
(*  {"op":"new"}                                   Quantizer::new()         *)
(*  {"op":"al","ns":[u8..],"m":mask}               allow(ns), then the 12   *)
(*  {"op":"fb","ns":[u8..],"m":mask}               is_allowed bits          *)
(*  {"op":"cv","k":K(v),"nan":b,"u":units,"n":note,"sk":K(stairstep),       *)
(*         "fq":fraction in units,"eu":e,"ec":e}   convert(v)               *)
(*       u  = floor(v * 1.2e7) (exact), saturated at +-1.9e9                *)
(*       eu = |f32(stairstep + fraction) - v| in ulps of max(|v|,|stair|),  *)
(*            rounded up, capped at 1000; ec = the same against clamp(v)    *)
(*  {"op":"run","m":mask,"lo":u,"hi":u,"n":note,"sk":K,"fmin":f,"fmax":f,   *)
(*         "eu":e}   a maximal run of consecutive grid inputs lo..hi, each  *)
(*       converted by a FRESH quantizer with scale m, all reporting note n  *)
(*       (fmin/fmax/eu: extremes over the run)                              *)
(*  {"op":"mark"} ... {"op":"rep","n":k}  run-length compression: k further  *)
(*       repetitions of exactly the calls in between, with identical        *)
(*       observations (compared by the recorder); accepted iff the marked   *)
(*       repetition returned the specification to its state at the mark     *)
(***************************************************************************)
EXTENDS Quantizer, TraceLib, Tables

VARIABLES l, dead,
          prevU,    \* previous input (units) since the scale was last edited, or -2000000000
          edited,   \* ghost: the scale was edited since the previous conversion
          snap      \* the state at the last "mark" event

tvars == <<qVars, l, dead, prevU, edited, snap>>

e == Rec[l]

NoPrev == -2000000000
MaskSet(m) == {k \in 0..11 : (m \div (2 ^ k)) % 2 = 1}
TupSeq(t) == t    \* JSON arrays are sequences already

Advance(tags) ==
  /\ l' = l + 1
  /\ dead' = dead \cup PropsOf(tags)
  /\ Flag(l, LiveTags(tags, dead))

ScaleTags(ns) ==
  IF MaskSet(e.m) = allowed' THEN {}
  ELSE IF e.m = 0 THEN {<<"C07", "empty-scale">>}
  ELSE IF \E i \in 1..Len(ns) : ns[i] > 11 THEN {<<"C20", "note-clamp">>, <<"C07", "scale-state">>}
  ELSE {<<"C07", "scale-state">>}

\* stairstep / fraction consistency of one reported conversion
C19Tags(n, sk, fmin, fmax, eu, inrange, fresh, kept) ==
       \* note / 12 V, give or take two ulps (n * (1/12) instead of n / 12 is not an error)
       (IF n < 0 \/ n > 131 \/ ~Near(sk, StairKey(IF n < 0 \/ n > 131 THEN 0 ELSE n), 2) THEN {<<"C19", "stairstep">>} ELSE {})
  \cup (IF eu > 2 THEN {<<"C19", "sum">>} ELSE {})
  \cup (IF fresh /\ inrange /\ allowed' = 0..11 /\ (fmin < -TolU \/ fmax >= SU + TolU)
          THEN {<<"C19", "fraction-chromatic">>} ELSE {})
  \cup (IF kept /\ (fmin < -HystU - TolU \/ fmax > SU + HystU + TolU) THEN {<<"C19", "fraction-window">>} ELSE {})

CvTags ==
  LET ur      == e.u
      inrange == ~e.nan /\ ur >= 0 /\ ur <= VMax
      uc      == IF e.nan THEN 0 ELSE Clamp(ur)
      valid   == LastValid /\ ~e.nan
      strict  == valid /\ InWindow(last, ur, -TolU)        \* certainly inside the window
      loose   == valid /\ InWindow(last, ur, TolU)         \* possibly inside the window
      n       == e.n
      okKeep  == loose /\ n = last
      \* an input clearly outside the range is clamped to exactly 0 V / 10 V: no tie tolerance there
      \* (exact ties between two allowed notes are still accepted either way)
      tol     == IF ~e.nan /\ (ur > VMax + TolU \/ ur < -TolU) THEN 0 ELSE TolU
      okFree  == ~strict /\ n >= 0 /\ n <= Top /\ AcceptT(allowed, uc, n, tol)
  IN   (IF n < 0 \/ n > Top \/ (n % PC) \notin allowed THEN {<<"C07", "forbidden-note">>} ELSE {})
  \* a NaN is not a voltage: C07 (an allowed note) and C17 (no panic) apply, nothing else is specified
  \cup IF e.nan THEN {} ELSE
       (IF ~hist /\ ~okFree THEN {<<"C08", "nearest">>} ELSE {})
  \cup (IF hist /\ strict /\ n # last THEN {<<"C09", "not-stable">>} ELSE {})
  \cup (IF hist /\ ~okKeep /\ ~okFree /\ ~(strict /\ n # last) THEN {<<"C09", "not-memoryless">>} ELSE {})
  \* (inputs inside the range only: above the range the search sees the clamped input while the window
  \* sees the raw one, so "rising input" is not well defined there)
  \cup (IF hist /\ ~edited /\ prevU # NoPrev /\ ~e.nan /\ prevU >= 0 /\ ur <= VMax /\ ur >= prevU + TolU /\ n < last
          THEN {<<"C09", "not-monotone">>} ELSE {})
  \* "kept by the hysteresis window": the previous note is reported although the memoryless rule
  \* would not report it for this input (or the input is certainly inside the window)
  \* ("for the chromatic scale without history the fraction lies in [0, 1) semitone" carries no range: outside
  \* [0, 10] V only the clamped reading of the sum satisfies it)
  \cup C19Tags(n, e.sk, e.fq, e.fq, IF inrange THEN e.eu ELSE Min2(e.eu, e.ec), TRUE, ~hist,
             hist /\ valid /\ n = last /\ (strict \/ ~(n >= 0 /\ n <= Top /\ Accept(allowed, uc, n))))

TMeta == e.op = "meta" /\ UNCHANGED <<qVars, dead, prevU, edited, snap>> /\ l' = l + 1

TNew ==
  /\ e.op = "new"
  /\ allowed' = 0..11 /\ hist' = FALSE /\ last' = 0
  /\ prevU' = NoPrev /\ edited' = FALSE /\ snap' = <<>>
  /\ l' = l + 1 /\ dead' = {}

TAllow ==
  /\ e.op = "al"
  /\ Allow(e.ns)
  /\ prevU' = NoPrev /\ edited' = TRUE /\ snap' = snap
  /\ Advance(ScaleTags(e.ns))

TForbid ==
  /\ e.op = "fb"
  /\ IF Len(e.ns) = 0 THEN UNCHANGED qVars ELSE Forbid(e.ns)
  /\ prevU' = NoPrev /\ edited' = TRUE /\ snap' = snap
  /\ Advance(ScaleTags(e.ns))

\* the specification's own memory follows the reported note (so one divergence is reported once)
TConvert ==
  /\ e.op = "cv"
  /\ allowed' = allowed /\ hist' = TRUE
  /\ last' = IF e.n >= 0 /\ e.n <= Top THEN e.n ELSE last
  /\ prevU' = IF e.nan THEN NoPrev ELSE e.u
  /\ edited' = FALSE /\ snap' = snap
  /\ Advance(CvTags)

\* a run of fresh conversions under scale m
RunTags ==
  LET A == MaskSet(e.m)
      n == e.n
  IN   (IF n < 0 \/ n > Top \/ (n % PC) \notin A THEN {<<"C07", "forbidden-note">>} ELSE {})
  \cup (IF n < 0 \/ n > Top \/ ~Accept(A, Clamp(e.lo), n) \/ ~Accept(A, Clamp(e.hi), n) THEN {<<"C08", "nearest">>} ELSE {})
  \cup C19Tags(n, e.sk, e.fmin, e.fmax, e.eu, TRUE, TRUE, FALSE)

TRun ==
  /\ e.op = "run"
  /\ allowed' = MaskSet(e.m) /\ hist' = FALSE /\ last' = 0
  /\ prevU' = NoPrev /\ edited' = FALSE /\ snap' = snap
  /\ Advance(RunTags)

TPanic == /\ e.op = "panic" /\ UNCHANGED <<qVars, prevU, edited, snap>>
          /\ Advance({<<"C17", "panic">>, <<"C07", "panic">>}
                      \cup (IF Has(e, "where") /\ e.where = "convert"
                              THEN {<<"C08", "panic">>, <<"C09", "panic">>, <<"C19", "panic">>} ELSE {}))

TMark == e.op = "mark" /\ snap' = <<qVars, prevU, edited>> /\ UNCHANGED <<qVars, dead, prevU, edited>> /\ l' = l + 1
TRep  == /\ e.op = "rep" /\ UNCHANGED <<qVars, prevU, edited, snap>>
         /\ Advance(IF snap = <<qVars, prevU, edited>> THEN {}
                    ELSE {<<"C07", "repetition-not-a-cycle">>, <<"C08", "repetition-not-a-cycle">>,
                          <<"C09", "repetition-not-a-cycle">>, <<"C19", "repetition-not-a-cycle">>})

TNext == l <= NRec /\ (TMark \/ TRep \/ TMeta \/ TNew \/ TAllow \/ TForbid \/ TConvert \/ TRun \/ TPanic)
TInit == QInit /\ l = 1 /\ dead = {} /\ prevU = NoPrev /\ edited = FALSE /\ snap = <<>> /\ FlagInit
TSpec == TInit /\ [][TNext]_tvars
=============================================================================
