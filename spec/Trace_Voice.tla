----------------------------- MODULE Trace_Voice -----------------------------
(***************************************************************************)
(* Trace validation of the wired voice (Voice.tla): a real MonoMidiReceiver *)
(* whose gate edges drive a real Adsr (128 Hz, times of 1/128 s: every      *)
(* timed phase lasts exactly one tick, the f32 increment is exactly 2^24).   *)
(*  {"op":"new","c":ch}                                                     *)
(*  {"op":"b","b":byte,"g":gate}             parse(byte); gate()            *)
(*  {"op":"poll","r":b,"f":b,"ph":0..4}      rising_gate(), falling_gate(), *)
(*                                           gate_on/off accordingly; phase *)
(*  {"op":"tk","ph":0..4,"k":K(value)}       adsr.tick(); phase, value      *)
(***************************************************************************)
EXTENDS Voice, TraceLib, Tables

VARIABLES l, dead
tvars == <<voiceAll, l, dead>>
e == Rec[l]

AttFn == [i \in 0..1024 |-> AttackRef(i)]
DecFn == [i \in 0..1024 |-> DecayRef(i)]
PhaseName(n) == CASE n = 0 -> "rest" [] n = 1 -> "attack" [] n = 2 -> "decay" [] n = 3 -> "sustain"
                  [] n = 4 -> "release"

Advance(tags) == /\ l' = l + 1 /\ dead' = dead \cup PropsOf(tags) /\ Flag(l, LiveTags(tags, dead))

TMeta == e.op = "meta" /\ UNCHANGED <<voiceAll, dead>> /\ l' = l + 1
TNew == /\ e.op = "new" /\ New(e.c)
        /\ acc' = 0 /\ inc' = 0 /\ rolled' = FALSE /\ lastAcc' = 0 /\ phase' = "rest" /\ lvlOn' = 0 /\ lvlOff' = 0
        /\ val' = 0 /\ S' = Q /\ step' = [a |-> M, d |-> M, r |-> M]
        /\ pc' = "poll" /\ kind' = "svc" /\ l' = l + 1 /\ dead' = {}
TByte == /\ e.op = "b" /\ Byte(e.b) /\ UNCHANGED <<adsrVars, pc>> /\ kind' = "midi"
         /\ Advance(IF e.g # gate' THEN {<<"C04", "gate">>} ELSE {})
TPoll == /\ e.op = "poll" /\ Poll
         /\ Advance(   (IF e.r # rise THEN {<<"C05", "rising">>} ELSE {})
                  \cup (IF e.f # fall THEN {<<"C05", "falling">>} ELSE {})
                  \cup (IF PhaseName(e.ph) # phase' THEN {<<"C02", "phase-order">>, <<"C05", "envelope-not-driven">>} ELSE {}))
TTick == /\ e.op = "tk" /\ Service
         /\ Advance(   (IF PhaseName(e.ph) # phase' THEN {<<"C02", "phase-order">>} ELSE {})
                  \cup (IF phase' = "rest" /\ e.k # 0 THEN {<<"C01", "rest-level">>} ELSE {})
                  \cup (IF ~Inv_agree' THEN {<<"C05", "gate-and-envelope-disagree">>} ELSE {}))
TPanic == e.op = "panic" /\ UNCHANGED voiceAll /\ Advance({<<"C17", "panic">>})

TNext == l <= NRec /\ (TMeta \/ TNew \/ TByte \/ TPoll \/ TTick \/ TPanic)
TInit == VInit(0, M) /\ l = 1 /\ dead = {} /\ FlagInit
TSpec == TInit /\ [][TNext]_tvars
=============================================================================
