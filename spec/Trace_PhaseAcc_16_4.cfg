SPECIFICATION TSpec
CONSTANTS
  AccBits = 16
  IdxBits = 4
  Rollover = "carry"
  FracMode = "cell"
INVARIANT TInv
POSTCONDITION Report
CHECK_DEADLOCK FALSE
