------------------------------ MODULE PhaseAcc ------------------------------
(***************************************************************************)
(* The phase accumulator shared by the ADSR envelope and the LFO           *)
(* (src/phase_accumulator.rs): an AccBits-wide counter advanced by `inc`    *)
(* per tick; its top IdxBits bits index a lookup table, the remaining low   *)
(* bits are the interpolation fraction inside the table cell; a carry out   *)
(* of the counter is latched in `rolled`.                                   *)
(*                                                                          *)
(* Switches for the behaviour of the code as first pinned:                  *)
(*   Rollover = "compare": the carry is detected by `new < previous` after  *)
(*              masking (misses increments that are multiples of 2^AccBits) *)
(*   FracMode = "whole"  : the fraction is the whole accumulator / 2^AccBits*)
(*              (the cycle position) instead of the position in the cell    *)
(***************************************************************************)
EXTENDS Integers

CONSTANTS AccBits, IdxBits, Rollover, FracMode

VARIABLES acc, inc, rolled, lastAcc

paVars == <<acc, inc, rolled, lastAcc>>

M    == 2 ^ AccBits              \* counter range
C    == 2 ^ (AccBits - IdxBits)  \* width of one table cell
Size == 2 ^ IdxBits              \* number of table cells

PA_Init == acc = 0 /\ inc = 0 /\ rolled = FALSE /\ lastAcc = 0

PA_Tick ==
  LET sum == acc + inc
      nxt == sum % M
  IN /\ acc' = nxt
     /\ rolled' = (rolled \/ IF Rollover = "carry" THEN sum >= M ELSE nxt < lastAcc)
     /\ lastAcc' = nxt
     /\ inc' = inc

PA_SetInc(i)   == inc' = i /\ UNCHANGED <<acc, rolled, lastAcc>>
PA_Reset       == acc' = 0 /\ lastAcc' = 0 /\ rolled' = FALSE /\ inc' = inc
PA_SetPhase(a) == acc' = a /\ lastAcc' = 0 /\ rolled' = FALSE /\ inc' = inc
PA_TakeRolled  == rolled' = FALSE /\ UNCHANGED <<acc, inc, lastAcc>>

Index == acc \div C
\* interpolation weight in units of 1/C
Frac  == IF FracMode = "cell" THEN acc % C ELSE acc \div Size

\* linear interpolation between table entries y0, y1 with weight f/C (integers, rounds down)
Lerp(y0, y1, f) == y0 + ((y1 - y0) * f) \div C
=============================================================================
