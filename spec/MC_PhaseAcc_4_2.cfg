SPECIFICATION MCSpec
CONSTANTS
  AccBits = 4
  IdxBits = 2
  Rollover = "carry"
  FracMode = "cell"
  Incs = {0, 1, 3, 8, 15, 16, 17, 32, 53}
  Emit = FALSE
CONSTRAINT Bound
INVARIANTS TypeOK Inv_drift Inv_latch Inv_split Inv_divider

CHECK_DEADLOCK FALSE
