----------------------------- MODULE Trace_Lfo -----------------------------
(***************************************************************************)
(* Implementation -> specification trace validation for the LFO            *)
(* (C10, C11, C12) at real scale: 24-bit accumulator, 1024-cell sine.       *)
(*                                                                          *)
(* Events:                                                                  *)
(*  {"op":"new","fs":K}                       Lfo::new(fs)                  *)
(*  {"op":"sf","fl":n,"fr":n,"st":n,"a":n,"t4":n}  set_frequency(f)         *)
(*        fl + fr/2^16 = the exact ideal step 2^24*f/fs (u128 arithmetic on *)
(*        the f32 bit patterns, rounded down to 16 fractional bits);        *)
(*        st = step of one tick taken on a copy of the oscillator           *)
(*  {"op":"t","a":n,"t4":n}                   tick()                        *)
(*  {"op":"sp","neg":b,"lo":n,"hi":n,"a":n,"t4":n}   set_phase(p):          *)
(*        lo/hi = floor/ceil of frac(|p|) * 2^24 (exact)                    *)
(*  {"op":"r","a":n,"t4":n}                   reset()                       *)
(*  {"op":"g",  "saw":n,"dn":n,"tri":n,"sq":n,"sin":n,"x":b}   get x 5      *)
(*  {"op":"tg", ...same...}                   tick() then get x 5           *)
(*  a   = phase read back through the up-saw: saw*2^23 + 2^23 (-1: inexact) *)
(*  t4  = triangle * 2^22 (second, independent read-out of the phase)       *)
(*  saw, dn = value * 2^23; tri = value * 2^22; sq = value; sin = Q24;      *)
(*  x = all of those products were exact integers                           *)
(***************************************************************************)
EXTENDS Lfo, TraceLib, Tables

VARIABLES l, dead,
          lastG,    \* <<valid, sinQ, tri4, ticks since, step of the last tick>> of the last read-out
          lastNeg,  \* <<frac, acc>> of the last set_phase with a negative argument
          want      \* upper bound of the increment last REQUESTED (ideal step + rounding allowance)

tvars == <<lfoVars, l, dead, lastG, lastNeg, want>>

\* the phase step C12's bounds refer to: what the oscillator really does per tick, but no more than
\* what was asked for (an oscillator running faster than requested is not excused by its own speed)
StepNow == Min2(inc, want)

e == Rec[l]

SinFn == [i \in 0..1024 |-> SinRef(i)]

Half == 8388608        \* 2^23
SineTol == 209716      \* 0.0125 * 2^24 + 1

\* 2*pi*1.002 * d in Q24 units per phase step d (M = 2^24), rounded up
SlopeBound(d) == 6 * d + (IF d < 700000 THEN (d * 2957 + 9999) \div 10000 ELSE (d \div 1000 + 1) * 296)

Advance(tags) ==
  /\ l' = l + 1
  /\ dead' = dead \cup PropsOf(tags)
  /\ Flag(l, LiveTags(tags, dead))

\* phase mismatch after an operation: if the two read-out channels agree with each other it is
\* the phase that is wrong (C11), otherwise the up-saw read-out itself (C10)
PhaseTags(what) ==
  IF e.a = acc' THEN {}
  ELSE IF e.a >= 0 /\ e.a < M /\ TriAt(e.a) % 4 = 0 /\ TriAt(e.a) \div 4 = e.t4 THEN {<<"C11", what>>}
  ELSE {<<"C10", "saw">>}

CeilDiv(x, d) == -((-x) \div d)

\* bounds of the realised increment for an ideal step fl + fr/2^16
StepUpper == e.fl + (e.fr + CeilDiv(e.fl + 1, 128) + 1) \div 65536
StepTags ==
  LET eps16 == CeilDiv(e.fl + 1, 128) + 1      \* 2^-23 relative, in 2^-16 units, + slack
      upper == StepUpper
      lower == Max2(0, e.fl + CeilDiv(e.fr - eps16, 65536) - 1)
  IN IF \E i \in lower..upper : i % M = e.st THEN {} ELSE {<<"C11", "increment">>}

GetTags ==
  LET a == acc' IN
       (IF e.saw + Half # a THEN {<<"C10", "saw">>} ELSE {})
  \cup (IF ~e.x THEN {<<"C10", "inexact">>} ELSE {})
  \cup (IF e.dn # -e.saw THEN {<<"C10", "down-saw">>} ELSE {})
  \cup (IF e.sq # SqrAt(a) THEN {<<"C10", "square">>} ELSE {})
  \cup (IF TriAt(a) % 4 # 0 \/ e.tri # TriAt(a) \div 4 THEN {<<"C10", "triangle">>} ELSE {})
  \cup (IF e.sin = NaNKey \/ ~Near(e.sin, SinAt(a), SineTol) THEN {<<"C10", "sine-accuracy">>} ELSE {})
  \cup (IF e.sin > 16777216 \/ e.sin < -16777216 THEN {<<"C10", "sine-range">>} ELSE {})

\* continuity between two read-outs separated by exactly one tick of step d
StepOf(n, d) ==
  IF ~lastG[1] \/ e.sin = NaNKey THEN {}
  ELSE IF n = 0 THEN (IF e.sin # lastG[2] \/ e.tri # lastG[3] THEN {<<"C10", "read-disturbs">>} ELSE {})
  ELSE IF n = 1 THEN
         \* + two f32 ulps of the value (2 units of 2^-24 above 0.5, at most 1 below) + 2 for the rounding of
         \* the two logged Q24 images
         (IF ~Near(e.sin, lastG[2], SlopeBound(d) + 2 + (IF Abs(e.sin) >= Half THEN 2 ELSE 1))
            THEN {<<"C12", "sine-step">>} ELSE {})
    \cup (IF ~Near(e.tri, lastG[3], d) THEN {<<"C12", "triangle-step">>} ELSE {})
  ELSE {}

---------------------------------------------------------------------------
TMeta == e.op = "meta" /\ UNCHANGED <<lfoVars, dead, lastG, lastNeg, want>> /\ l' = l + 1

TNew ==
  /\ e.op = "new"
  /\ acc' = 0 /\ inc' = 0 /\ rolled' = FALSE /\ lastAcc' = 0
  /\ l' = l + 1 /\ dead' = {}
  /\ lastG' = <<FALSE, 0, 0, 0, 0>> /\ lastNeg' = <<-1, -1>> /\ want' = 0

TTick ==
  /\ e.op = "t"
  /\ Tick
  /\ lastG' = <<lastG[1], lastG[2], lastG[3], lastG[4] + 1, StepNow>> /\ want' = want
  /\ UNCHANGED lastNeg
  /\ Advance(PhaseTags("tick-advance"))

TSetFreq ==
  /\ e.op = "sf"
  /\ SetInc(e.st)
  /\ UNCHANGED <<lastG, lastNeg>>
  /\ want' = StepUpper
  /\ Advance(StepTags \cup PhaseTags("setfreq-phase-jump"))

TSetPhase ==
  /\ e.op = "sp"
  /\ SetPhase(IF e.a >= 0 /\ e.a < M THEN e.a ELSE acc)
  /\ lastG' = <<FALSE, 0, 0, 0, 0>>
  \* (remembered only when the fractional part is exactly representable as a counter value: lo = hi)
  /\ lastNeg' = (IF e.neg /\ e.lo = e.hi THEN <<e.lo, e.a>> ELSE lastNeg)
  /\ want' = want
  /\ Advance(   (IF e.a < 0 \/ e.a >= M THEN {<<"C11", "set-phase-range">>} ELSE {})
           \cup (IF ~e.neg /\ (e.a < e.lo - 4 \/ e.a > e.hi + 4) THEN {<<"C11", "set-phase">>} ELSE {})
           \cup (IF e.neg /\ e.lo = e.hi /\ lastNeg[1] = e.lo /\ lastNeg[2] # e.a
                   THEN {<<"C11", "set-phase-negative">>} ELSE {})
           \cup (IF e.a >= 0 /\ e.a < M /\ (TriAt(e.a) % 4 # 0 \/ TriAt(e.a) \div 4 # e.t4) THEN {<<"C10", "saw">>} ELSE {}))

TReset ==
  /\ e.op = "r"
  /\ Reset
  /\ lastG' = <<FALSE, 0, 0, 0, 0>>
  /\ UNCHANGED <<lastNeg, want>>
  /\ Advance(PhaseTags("reset"))

TGet ==
  /\ e.op = "g"
  /\ UNCHANGED <<lfoVars, lastNeg, want>>
  /\ lastG' = <<TRUE, e.sin, e.tri, 0, 0>>
  /\ Advance(GetTags \cup StepOf(lastG[4], lastG[5]))

TTickGet ==
  /\ e.op = "tg"
  /\ Tick
  /\ UNCHANGED <<lastNeg, want>>
  /\ lastG' = <<TRUE, e.sin, e.tri, 0, 0>>
  /\ Advance(GetTags \cup StepOf(lastG[4] + 1, StepNow))

\* a panic is an event no action accepts: C17 always, and the property about the call that panicked
TPanic ==
  /\ e.op = "panic"
  /\ UNCHANGED <<lfoVars, lastG, lastNeg, want>>
  /\ Advance({<<"C17", "panic">>} \cup (IF e.during \in {"get", "tick+get"} THEN {<<"C10", "panic-reading-shapes">>}
                                        ELSE {<<"C11", "panic">>}))

TNext == l <= NRec /\ (TMeta \/ TNew \/ TTick \/ TSetFreq \/ TSetPhase \/ TReset \/ TGet \/ TTickGet \/ TPanic)
TInit == PA_Init /\ l = 1 /\ dead = {} /\ lastG = <<FALSE, 0, 0, 0, 0>> /\ lastNeg = <<-1, -1>> /\ want = 0 /\ FlagInit
TSpec == TInit /\ [][TNext]_tvars
TInv == acc \in 0..(M - 1)
=============================================================================
