------------------------------- MODULE MC_Glide -------------------------------
EXTENDS Glide, TLC, Json

CONSTANTS Times, Inputs, SettleBound

VARIABLES kind, req, since   \* ghosts: last call, last requested time, consecutive samples with the input held

mcVars == <<gVars, kind, req, since>>

InputSet == {0, 8, 16, -8}

AbsG(a) == IF a < 0 THEN -a ELSE a

TSet(t)  == SetTime(t) /\ kind' = "set" /\ req' = t /\ since' = since
TProc(v) == Process(v) /\ kind' = "proc" /\ req' = req
            /\ since' = IF v = x THEN (IF since < SettleBound THEN since + 1 ELSE since) ELSE 0

MCInit == GInit /\ kind = "new" /\ req = -1 /\ since = 0
MCNext == (\E t \in Times : TSet(t)) \/ (\E v \in Inputs : TProc(v))
MCSpec == MCInit /\ [][MCNext]_mcVars

\* ---- every-transition replay graph of the dead-band logic on the real GlideProcessor (Graph_Glide.cfg, 100 Hz:
\* TFast = 2 units of 10 ms). set_time has no read-back, so the graph has one observing operation: "probe" feeds
\* a step and compares the response with that of a new processor given the time the specification says is in
\* effect. A probe moves the filter state, which this graph does not model: it leads to a sink.
GKey == <<cached, eff, kind = "probe">>
GLbl(op) == PrintT(<<"EDGE", ToJson(<<GKey, op, <<cached', eff', kind' = "probe">>, <<eff'>>>>)>>)
GSet(t) == kind # "probe" /\ TSet(t) /\ GLbl([op |-> "set", t |-> t, h |-> Honoured(t)])
GProbe  == kind # "probe" /\ kind' = "probe" /\ UNCHANGED <<gVars, req, since>> /\ GLbl([op |-> "probe"])
GInitE  == MCInit /\ PrintT(<<"INIT", ToJson(<<GKey, <<eff>>>>)>>)
GSpec   == GInitE /\ [][(\E t \in Times : GSet(t)) \/ GProbe]_mcVars

Prop_C13_monotone == [][kind' = "proc" => C13_monotone(x')]_mcVars
\* an input held for SettleBound samples has been reached (settles, never keeps oscillating)
Inv_C13_settles == since >= SettleBound => y = x
\* C14: the time in effect is the last requested one up to the dead band
Inv_C14_track == req # -1 => (AbsG(req - cached) <= Dead)
Prop_C14_honoured == [][(kind' = "set" /\ Honoured(req')) => (cached' = req' /\ eff' = ClampT(req'))]_mcVars
Prop_C14_ignored  == [][(kind' = "set" /\ ~Honoured(req')) => UNCHANGED gVars]_mcVars
=============================================================================
