SPECIFICATION MCSpec
CONSTANTS
  PC = 4
  MaxOct = 3
  SU = 20
  HystU = 2
  TolU = 0
  CacheCheck = "pc"
  RuleF <- RuleMemo
  Emit = FALSE
INVARIANTS TypeOK Inv_C07_nonempty Inv_C09_chatter Inv_C19_sum Inv_C19_window Inv_C19_chromatic
PROPERTIES Prop_C07 Prop_C07_forbid Prop_C09_stable Prop_C09_free Prop_C09_mono
CHECK_DEADLOCK FALSE
