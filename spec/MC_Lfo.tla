------------------------------- MODULE MC_Lfo -------------------------------
EXTENDS Lfo, TLC, Json

CONSTANTS Incs,   \* increments the model may select
          Emit    \* BOOLEAN: print every transition (graph replay)

\* a 4-cell or 8-cell integer "sine": one period sampled at the cell borders
Sin4 == [i \in 0..4 |-> CASE i = 0 -> 0 [] i = 1 -> 64 [] i = 2 -> 0 [] i = 3 -> -64 [] i = 4 -> 0]
Sin8 == [i \in 0..8 |-> CASE i = 0 -> 0 [] i = 1 -> 45 [] i = 2 -> 64 [] i = 3 -> 45 [] i = 4 -> 0
                          [] i = 5 -> -45 [] i = 6 -> -64 [] i = 7 -> -45 [] i = 8 -> 0]

Inv_C10_sinrange == \A a \in 0..(M - 1) : SinAt(a) >= -SinTab[Size \div 4] /\ SinAt(a) <= SinTab[Size \div 4]


\* ---- C12 (on the bounded instance: all phases a, all increments d) ------------------------
\* the triangle never moves by more than 4 * step; the sine by no more than the steepest table
\* slope times the step (MaxSlope = largest |SinTab[i+1] - SinTab[i]|, per cell of width C)
MaxSlope == CHOOSE s \in 0..(2 * SinTab[Size \div 4]) :
              /\ \A i \in 0..(Size - 1) : SinTab[i + 1] - SinTab[i] <= s /\ SinTab[i] - SinTab[i + 1] <= s
              /\ \E i \in 0..(Size - 1) : SinTab[i + 1] - SinTab[i] = s \/ SinTab[i] - SinTab[i + 1] = s
AbsV(x) == IF x < 0 THEN -x ELSE x
Thm_C12_tri == \A a \in 0..(M - 1) : \A d \in 0..(M - 1) :
                 AbsV(TriAt((a + d) % M) - TriAt(a)) <= 4 * d
\* + 2: two roundings down of the integer interpolation
Thm_C12_sin == \A a \in 0..(M - 1) : \A d \in 0..(M - 1) :
                 AbsV(SinAt((a + d) % M) - SinAt(a)) * C <= MaxSlope * d + 2 * C

\* ghost for "no drift": k ticks after the phase was last positioned at a0 with constant inc
VARIABLES a0, k
mcVars == <<lfoVars, a0, k>>

GView == <<acc, inc>>
Lbl(op) == Emit => PrintT(<<"EDGE", ToJson(<<GView, op, GView', <<acc', inc'>>>>)>>)
MCInit == PA_Init /\ a0 = 0 /\ k = 0 /\ (Emit => PrintT(<<"INIT", ToJson(<<GView, <<acc, inc>>>>)>>))
MCNext ==
  \/ Tick /\ k' = k + 1 /\ a0' = a0 /\ Lbl([op |-> "tick"])
  \/ \E i \in Incs : SetInc(i) /\ a0' = acc /\ k' = 0 /\ Lbl([op |-> "freq", i |-> i])
  \/ \E a \in 0..(M - 1) : SetPhase(a) /\ a0' = a /\ k' = 0 /\ Lbl([op |-> "phase", a |-> a])
  \/ Reset /\ a0' = 0 /\ k' = 0 /\ Lbl([op |-> "reset"])
MCSpec == MCInit /\ [][MCNext]_mcVars

Bound == k <= 2 * M
Inv_C11_drift == acc = (a0 + k * inc) % M
TypeOK == acc \in 0..(M - 1)
ASSUME Thm_C12_tri
ASSUME Thm_C12_sin
ASSUME Inv_C10_sinrange
=============================================================================
