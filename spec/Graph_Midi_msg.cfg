\* every-transition replay graph, message level (2 notes, polls, modes, All-Notes-Off)
SPECIFICATION SpecMsg
CONSTANTS
  HeldCap = 3
  AnoFalling = "edge"
  StrayOffFalling = "never"
  Notes = {60, 72}
  Vels = {0, 100}
  CcMsgs <- Cc_ano
  PbMsgs <- Pb_none
  Channel = 3
  Foreign = 5
  Alphabet = {}
  MaxHeld = 3
  Emit = TRUE
VIEW View
CONSTRAINT Premise
CHECK_DEADLOCK FALSE
