\* every-transition replay graph: the real configuration of a 500 Hz ribbon
SPECIFICATION MCSpec
CONSTANTS
  ResetOnTap = "always"
  Cfgs <- Cfgs500
  Samples = {1, 5, 9}
  Emit = TRUE
CHECK_DEADLOCK FALSE
