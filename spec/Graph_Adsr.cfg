\* every-transition replay graph for the real Adsr at fs = 128 Hz: increments are powers of two
\* (times 8, 1 and 1/2 sample), so the f32 increment computation is exact and the model accumulator is
\* the real one divided by 2^19
SPECIFICATION MCSpec
CONSTANTS
  AccBits = 5
  IdxBits = 2
  QBits = 2
  Rollover = "carry"
  FracMode = "cell"
  AttTab <- AttLin
  DecTab <- DecLin
  StepsA = {4, 32}
  StepsD = {4, 64}
  StepsR = {8}
  Sustains = {0, 4}
  TabShape = "linear"
  Emit = TRUE
VIEW GView
CHECK_DEADLOCK FALSE
