\* message level: controllers and pitch bend interleaved with note traffic (C18)
SPECIFICATION SpecMsg
CONSTANTS
  HeldCap = 2
  AnoFalling = "edge"
  StrayOffFalling = "never"
  Notes = {60}
  Vels = {0, 100}
  CcMsgs <- Cc_ctl
  PbMsgs <- Pb_some
  Channel = 3
  Foreign = 5
  Alphabet = {}
  MaxHeld = 2
  Emit = FALSE
VIEW View
CONSTRAINT Premise
INVARIANTS TypeOK Inv_C04_gate Inv_C05_imply
PROPERTIES Prop_C18_route Prop_C04_note Prop_C05_fall Prop_C05_rise
CHECK_DEADLOCK FALSE
