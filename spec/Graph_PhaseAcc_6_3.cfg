\* every-transition replay graph for the real PhaseAccumulator<6,3> at fs = 64 Hz (frequency i Hz
\* gives exactly the increment i)
SPECIFICATION MCSpec
CONSTANTS
  AccBits = 6
  IdxBits = 3
  Rollover = "carry"
  FracMode = "cell"
  Incs = {0, 1, 3, 32, 63, 64, 65, 128, 197}
  Emit = TRUE
VIEW GView
CHECK_DEADLOCK FALSE
