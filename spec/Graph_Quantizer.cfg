\* every-transition replay graph for the real Quantizer: the real constants (12 pitch classes, 0 .. 10 V,
\* hysteresis of a tenth of a semitone) on a grid of 1/240 V; see GInputs / GScales in MC_Quantizer.tla
SPECIFICATION MCSpec
CONSTANTS
  PC = 12
  MaxOct = 10
  SU = 20
  HystU = 2
  TolU = 0
  CacheCheck = "pc"
  RuleF <- GRuleMemo
  Inputs <- GInputs
  AllowSeqs <- GAllowSeqs
  ForbidSeqs <- GForbidSeqs
  Scales <- GScales
  RuleDom <- GRuleDom
  Emit = TRUE
VIEW qVars
CHECK_DEADLOCK FALSE
