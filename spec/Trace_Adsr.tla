----------------------------- MODULE Trace_Adsr -----------------------------
(***************************************************************************)
(* Implementation -> specification trace validation for the ADSR           *)
(* (C01, C02, C03, C17) at real scale: 24-bit accumulator, 1024-cell        *)
(* curves, Q24 values.                                                      *)
(*                                                                          *)
(* The accumulator and the phase are logged (hooks), so the specification   *)
(* state follows the implementation after every event and each relation of  *)
(* Adsr.tla is evaluated as a predicate on the observed step; what the      *)
(* specification keeps for itself is what the properties are about: the     *)
(* level latched at a gate event, the parameters, the previous output.      *)
(*                                                                          *)
(* Events (obs = "ph":0..4 rest/attack/decay/sustain/release, "a":acc,      *)
(*         "k":K(value), "q":Q24(value)):                                   *)
(*  {"op":"new","fs":K,"fl":n,"fr":n, obs}   Adsr::new(fs); fl+fr/2^16 is   *)
(*        the exact ideal per-tick step 2^24/(T*fs) of the default 1 ms     *)
(*  {"op":"si","w":"a|d|r","fl":n,"fr":n,"arg":K,"ck":K, obs}  set a time  *)
(*  {"op":"si","w":"s","cq":Q24,"ck":K,"arg":K, obs}            set sustain*)
(*  {"op":"on", obs} {"op":"off", obs} {"op":"t", obs}                      *)
(*  {"op":"skip","n":k, obs}   k unlogged ticks inside one phase            *)
(***************************************************************************)
EXTENDS Adsr, TraceLib, Tables

VARIABLES l, dead,
          Skey,     \* order key of the sustain level
          lastK,    \* order key of the output after the previous tick
          cont,     \* no gate / sustain event (and no unlogged stretch) since the previous tick
          sAtTick,  \* sustain level (Q24) at the previous tick
          fresh     \* the previous event was a logged tick (val is the output one tick ago)

tvars == <<adsrVars, l, dead, Skey, lastK, cont, sAtTick, fresh>>

e == Rec[l]

AttFn == [i \in 0..1024 |-> AttackRef(i)]
DecFn == [i \in 0..1024 |-> DecayRef(i)]

PhaseName(n) == CASE n = 0 -> "rest" [] n = 1 -> "attack" [] n = 2 -> "decay" [] n = 3 -> "sustain"
                  [] n = 4 -> "release"

CurveTol == 83888     \* 0.5 % of full scale in Q24, + 2 for the logging quantisation

CeilDiv(x, d) == -((-x) \div d)

\* bounds of the realised per-tick increment for an ideal step p = <<fl, fr>> (fl + fr/2^16):
\* at most f32 rounding above (2^-23 relative), at most that plus one count below (truncation)
Eps16(p) == CeilDiv(p[1] + 1, 128) + 1
Upper(p) == p[1] + (p[2] + Eps16(p)) \div 65536
Lower(p) == Max2(0, p[1] + CeilDiv(p[2] - Eps16(p), 65536) - 1)

\* steepest slope of the documented curves * 1.002, in hundredths (attack 1.8106, decay 4.0746)
Slope100(p) == IF p = "attack" THEN 182 ELSE 409
Span(p) == CASE p = "attack" -> Q - lvlOn [] p = "decay" -> Q - S [] p = "release" -> lvlOff [] OTHER -> 0
\* largest change one tick of increment <= i may cause in phase p
StepBound(p, i) ==
  IF p \in Timed
    THEN LET x == MulQ(Span(p), Min2(i, M))
         IN (x \div 100) * Slope100(p) + ((x % 100) * Slope100(p)) \div 100 + 8
    ELSE 0

Advance(tags) ==
  /\ l' = l + 1
  /\ dead' = dead \cup PropsOf(tags)
  /\ Flag(l, LiveTags(tags, dead))

\* observations are kept inside the ranges the specification's arithmetic is written for (an observation
\* outside them is flagged where it is made; it must not make later predicates unevaluable)
SaneQ(q) == IF q = NaNKey \/ q < 0 THEN 0 ELSE IF q > Q THEN Q ELSE q
SaneA(a) == IF a < 0 THEN 0 ELSE IF a >= M THEN M - 1 ELSE a

\* observed phase / position / output become the specification's
Observe ==
  /\ phase' = PhaseName(e.ph)
  /\ acc' = SaneA(e.a) /\ lastAcc' = SaneA(e.a)
  /\ val' = SaneQ(e.q)
  /\ UNCHANGED <<inc, rolled>>

RangeTags == IF e.k = NaNKey \/ e.k < 0 \/ e.k > KeyOne \/ e.q # SaneQ(e.q) THEN {<<"C01", "range">>} ELSE {}

\* ---- a logged tick --------------------------------------------------------------------------
\* a step <<-1, _>> is unknown: the envelope runs on power-on times that differ from those of the code as first
\* pinned (nobody states them); timing is then not checked until the time is set explicitly
Known(p) == p[1] >= 0

TickTags ==
  LET p     == IF phase \in Timed THEN StepOf(phase) ELSE <<0, 0>>
      same  == phase' = phase
      d     == acc' - acc
      lo    == IF Known(p) THEN Lower(p) ELSE 0
      hi    == IF Known(p) THEN Upper(p) ELSE (IF d > 0 /\ same THEN d + 1 ELSE M)
      dS    == Abs(S - sAtTick)
  IN   (IF ~C02_order("tick") THEN {<<"C02", "phase-order">>} ELSE {})
  \cup (IF e.a # SaneA(e.a) THEN {<<"C02", "position-range">>} ELSE {})
  \cup (IF phase \in Timed /\ same /\ (d < lo \/ d > hi) THEN {<<"C02", "increment">>} ELSE {})
  \* the phase is still running although its configured time has passed: late by more than the counter
  \* resolution (C02), never ending (C17), and the output is not where the curve is at that time (C01)
  \cup (IF phase \in Timed /\ same /\ acc + lo >= M
          THEN {<<"C02", "overstays">>, <<"C17", "phase-never-ends">>, <<"C01", "curve-not-completed-in-time">>} ELSE {})
  \cup (IF phase \in Timed /\ same /\ d <= 0 THEN {<<"C17", "no-progress">>} ELSE {})
  \cup (IF phase \in Timed /\ ~same /\ acc + hi < M THEN {<<"C02", "leaves-early">>} ELSE {})
  \* (a timed phase starts at position 0; what the counter holds while sustaining or at rest is not specified)
  \cup (IF phase \in Timed /\ ~same /\ phase' \in Timed /\ acc' # 0 THEN {<<"C02", "phase-start-position">>} ELSE {})
  \cup (IF phase \notin Timed /\ acc' # acc THEN {<<"C02", "position-moves-untimed">>} ELSE {})
  \cup RangeTags
  \cup (IF phase = "attack" /\ phase' = "decay" /\ e.k # KeyOne THEN {<<"C01", "attack-end-level">>} ELSE {})
  \cup (IF phase' = "sustain" /\ e.k # Skey THEN {<<"C01", "sustain-level">>} ELSE {})
  \cup (IF phase' = "rest" /\ e.k # 0 THEN {<<"C01", "rest-level">>} ELSE {})
  \cup (IF cont /\ same /\ phase = "attack" /\ e.k < lastK THEN {<<"C01", "attack-not-monotone">>} ELSE {})
  \cup (IF cont /\ same /\ phase \in {"decay", "release"} /\ e.k > lastK THEN {<<"C01", "fall-not-monotone">>} ELSE {})
  \cup (IF phase' \in Timed /\ e.q # NaNKey /\ ~Near(e.q, Value(phase', acc', lvlOn, lvlOff, S), CurveTol)
          THEN {<<"C01", "curve">>} ELSE {})
  \cup (IF fresh /\ e.q # NaNKey /\ ~Near(e.q, val, StepBound(phase, hi) + dS + 4)
          THEN {<<"C03", "step">>} ELSE {})

TTick ==
  /\ e.op = "t"
  /\ Observe
  /\ UNCHANGED <<lvlOn, lvlOff, S, step, Skey>>
  /\ lastK' = e.k /\ cont' = TRUE /\ sAtTick' = S /\ fresh' = TRUE
  /\ Advance(TickTags)

\* ---- k unlogged ticks inside one phase ---------------------------------------------------------
SkipTags ==
  LET p  == IF phase \in Timed THEN StepOf(phase) ELSE <<0, 0>>
      d  == acc' - acc
  IN   (IF phase' # phase THEN {<<"C02", "phase-order">>} ELSE {})
  \cup (IF phase \in Timed /\ Known(p) /\ Upper(p) < M /\ (d \div e.n < Lower(p) \/ (d + e.n - 1) \div e.n > Upper(p)) THEN {<<"C02", "increment">>} ELSE {})
  \cup (IF phase \in Timed /\ phase' = phase /\ d <= 0 THEN {<<"C17", "no-progress">>} ELSE {})
  \cup RangeTags
  \cup (IF cont /\ phase = "attack" /\ e.k < lastK THEN {<<"C01", "attack-not-monotone">>} ELSE {})
  \cup (IF cont /\ phase \in {"decay", "release"} /\ e.k > lastK THEN {<<"C01", "fall-not-monotone">>} ELSE {})
  \cup (IF phase' \in Timed /\ e.q # NaNKey /\ ~Near(e.q, Value(phase', acc', lvlOn, lvlOff, S), CurveTol)
          THEN {<<"C01", "curve">>} ELSE {})

TSkip ==
  /\ e.op = "skip"
  /\ Observe
  /\ UNCHANGED <<lvlOn, lvlOff, S, step, Skey>>
  /\ lastK' = e.k /\ cont' = cont /\ sAtTick' = S /\ fresh' = FALSE
  /\ Advance(SkipTags)

\* ---- gate events -------------------------------------------------------------------------------
TOn ==
  /\ e.op = "on"
  /\ Observe
  /\ lvlOn' = IF phase # "attack" THEN val ELSE lvlOn
  /\ UNCHANGED <<lvlOff, S, step, Skey, lastK, sAtTick, fresh>>
  /\ cont' = (cont /\ phase = "attack")
  /\ Advance(   (IF ~C02_order("on") \/ (phase # "attack" /\ acc' # 0) THEN {<<"C02", "gate-on">>} ELSE {})
           \cup (IF phase # "attack" /\ phase' = "attack" /\ acc' # 0 THEN {<<"C01", "segment-start">>} ELSE {})
           \cup (IF e.q # val THEN {<<"C03", "gate-changes-output">>} ELSE {}))

TOff ==
  /\ e.op = "off"
  /\ Observe
  /\ lvlOff' = IF phase \in {"attack", "decay", "sustain"} THEN val ELSE lvlOff
  /\ UNCHANGED <<lvlOn, S, step, Skey, lastK, sAtTick, fresh>>
  /\ cont' = (cont /\ phase \in {"release", "rest"})
  /\ Advance(   (IF ~C02_order("off") \/ (phase \in {"attack", "decay", "sustain"} /\ acc' # 0)
                   THEN {<<"C02", "gate-off">>} ELSE {})
           \cup (IF phase \in {"attack", "decay", "sustain"} /\ phase' = "release" /\ acc' # 0
                   THEN {<<"C01", "segment-start">>} ELSE {})
           \cup (IF e.q # val THEN {<<"C03", "gate-changes-output">>} ELSE {}))

\* ---- parameters --------------------------------------------------------------------------------
TSetTime ==
  /\ e.op = "si" /\ e.w \in {"a", "d", "r"}
  /\ Observe
  /\ step' = [step EXCEPT ![e.w] = <<e.fl, e.fr>>]
  /\ UNCHANGED <<lvlOn, lvlOff, S, Skey, lastK, cont, sAtTick, fresh>>
  /\ Advance(IF ~C02_order("set") \/ e.q # val THEN {<<"C02", "set-input-disturbs">>} ELSE {})

TSetSustain ==
  /\ e.op = "si" /\ e.w = "s"
  /\ Observe
  /\ S' = SaneQ(e.cq) /\ Skey' = e.ck
  /\ UNCHANGED <<lvlOn, lvlOff, step, lastK, sAtTick, fresh>>
  /\ cont' = FALSE
  \* (phase and position must not move; whether value() shows the new level at once or on the next tick is
  \* not specified - C03 counts it as the caller's own change either way)
  /\ Advance(   (IF ~C02_order("set") THEN {<<"C02", "set-input-disturbs">>} ELSE {})
           \cup (IF e.cq # SaneQ(e.cq) THEN {<<"C20", "sustain-not-clamped">>, <<"C01", "range">>} ELSE {}))

TNew ==
  /\ e.op = "new"
  /\ phase' = "rest" /\ acc' = 0 /\ lastAcc' = 0 /\ inc' = 0 /\ rolled' = FALSE
  \* s0 / sk0: the power-on sustain level as measured on a copy of the new envelope (1.0 as first pinned)
  /\ lvlOn' = 0 /\ lvlOff' = 0 /\ val' = 0
  /\ S' = (IF Has(e, "s0") THEN SaneQ(e.s0) ELSE Q) /\ Skey' = (IF Has(e, "sk0") THEN e.sk0 ELSE KeyOne)
  /\ step' = [a |-> <<e.fl, e.fr>>, d |-> <<e.fl, e.fr>>, r |-> <<e.fl, e.fr>>]
  /\ lastK' = 0 /\ cont' = FALSE /\ sAtTick' = (IF Has(e, "s0") THEN SaneQ(e.s0) ELSE Q) /\ fresh' = FALSE
  /\ l' = l + 1 /\ dead' = {}
  /\ Flag(l, IF e.ph # 0 \/ e.a # 0 \/ e.k # 0 THEN {<<"C02", "initial-state">>} ELSE {})

TMeta  == e.op = "meta" /\ UNCHANGED <<adsrVars, dead, Skey, lastK, cont, sAtTick, fresh>> /\ l' = l + 1
TPanic == /\ e.op \in {"panic", "hang"}
          /\ UNCHANGED <<adsrVars, Skey, lastK, cont, sAtTick, fresh>>
          /\ Advance({<<"C17", e.op>>, <<"C01", e.op>>, <<"C02", e.op>>, <<"C03", e.op>>})

TNext == l <= NRec /\ (TMeta \/ TNew \/ TTick \/ TSkip \/ TOn \/ TOff \/ TSetTime \/ TSetSustain \/ TPanic)

TInit == /\ AdsrInit(<<0, 0>>) /\ l = 1 /\ dead = {} /\ Skey = KeyOne /\ lastK = 0 /\ cont = FALSE
         /\ sAtTick = Q /\ fresh = FALSE /\ FlagInit
TSpec == TInit /\ [][TNext]_tvars
=============================================================================
