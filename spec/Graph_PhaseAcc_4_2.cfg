\* every-transition replay graph for the real PhaseAccumulator<4,2> at fs = 16 Hz (frequency i Hz
\* gives exactly the increment i)
SPECIFICATION MCSpec
CONSTANTS
  AccBits = 4
  IdxBits = 2
  Rollover = "carry"
  FracMode = "cell"
  Incs = {0, 1, 3, 8, 15, 16, 17, 32, 53}
  Emit = TRUE
VIEW GView
CHECK_DEADLOCK FALSE
