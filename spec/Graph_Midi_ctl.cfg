\* message level: controllers and pitch bend interleaved with note traffic (C18)
SPECIFICATION SpecMsg
CONSTANTS
  HeldCap = 2
  AnoFalling = "edge"
  StrayOffFalling = "never"
  Notes = {60}
  Vels = {0, 100}
  CcMsgs <- Cc_small
  PbMsgs <- Pb_two
  Channel = 3
  Foreign = 5
  Alphabet = {}
  MaxHeld = 2
  Emit = TRUE
VIEW View
CONSTRAINT Premise
CHECK_DEADLOCK FALSE
