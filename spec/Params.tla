------------------------------- MODULE Params -------------------------------
(***************************************************************************)
(* Parameter clamping (C20): envelope times, sustain level, scale notes,    *)
(* MIDI channel.  Floats are represented by their order keys (a strictly    *)
(* monotone image of the non-NaN f32 values), so "the nearer bound" is a    *)
(* comparison of keys.                                                      *)
(***************************************************************************)
EXTENDS Integers

\* clamp of an order key into [lo, hi]
ClampKey(k, lo, hi) == IF k < lo THEN lo ELSE IF k > hi THEN hi ELSE k
NoteClamp(n) == IF n > 11 THEN 11 ELSE n
ChanClamp(c) == IF c > 15 THEN 15 ELSE c

\* lemmas, checked by TLC over a small ordered domain (MC_Params.cfg)
Lemma_range(D, lo, hi)      == \A k \in D : lo <= ClampKey(k, lo, hi) /\ ClampKey(k, lo, hi) <= hi
Lemma_identity(D, lo, hi)   == \A k \in D : (lo <= k /\ k <= hi) => ClampKey(k, lo, hi) = k
Lemma_nearest(D, lo, hi)    == \A k \in D : (k < lo => ClampKey(k, lo, hi) = lo) /\ (k > hi => ClampKey(k, lo, hi) = hi)
Lemma_idempotent(D, lo, hi) == \A k \in D : ClampKey(ClampKey(k, lo, hi), lo, hi) = ClampKey(k, lo, hi)
Lemma_monotone(D, lo, hi)   == \A j \in D : \A k \in D : j <= k => ClampKey(j, lo, hi) <= ClampKey(k, lo, hi)
=============================================================================
