------------------------------ MODULE TraceLib ------------------------------
(***************************************************************************)
(* Shared machinery of the trace specifications (implementation -> spec).   *)
(*                                                                          *)
(* The recorded trace is an ndjson file named by the environment variable   *)
(* TRACE; event l is Rec[l].  Trace specifications run in MONITOR mode: the *)
(* specification always takes its own step for the logged operation and     *)
(* evaluates the observation predicates; every event whose observation the  *)
(* specification does not allow is appended, with the set of failed tags    *)
(* (<<"Cxx", "what">>), to TLC register 1.  Within one run (from a "new"    *)
(* event to the next) only the first flagged event of each PROPERTY is      *)
(* reported (dead = set of properties already reported in this run), so one *)
(* divergence is reported once per property and later runs in the same file *)
(* are still examined.  The POSTCONDITION prints the register and the  *)
(* number of events consumed; the orchestrator (bin/check) turns flagged    *)
(* events into VIOLATION lines.  Must run with -workers 1.                  *)
(***************************************************************************)
EXTENDS Integers, Sequences, TLC, Json, IOUtils

Rec  == ndJsonDeserialize(IOEnv.TRACE)
NRec == Len(Rec)

MaxFlags == 100

FlagInit == TLCSet(1, <<>>) /\ TLCSet(2, 0)

\* record a flagged event (always TRUE)
Flag(i, tags) ==
  IF tags = {} THEN TRUE
  ELSE /\ TLCSet(2, TLCGet(2) + 1)
       /\ IF Len(TLCGet(1)) >= MaxFlags THEN TRUE
          ELSE TLCSet(1, Append(TLCGet(1), [i |-> i, tags |-> tags]))

\* POSTCONDITION: print what was found; the check itself never fails here
Report ==
  /\ PrintT("TRACE_FLAGS " \o ToJson(TLCGet(1)))
  /\ PrintT("TRACE_DONE " \o ToJson([consumed |-> TLCGet("stats").diameter - 1,
                                      events |-> NRec, flagged |-> TLCGet(2)]))

NaNKey == 2147483647   \* how a NaN observation is logged (outside the range of order keys)

\* |a - ref| <= d without risking 32-bit overflow (ref and d are small, a is any key)
Near(a, ref, d) == ref - d <= a /\ a <= ref + d

Cmp(a, b) == IF a > b THEN 1 ELSE IF a < b THEN -1 ELSE 0

\* tags are <<property, what>>; `dead` is the set of properties already reported in the current run
\* ("ALL": nothing more is reported in this run)
PropsOf(tags) == {t[1] : t \in tags}
LiveTags(tags, dead) == IF "ALL" \in dead THEN {} ELSE {t \in tags : t[1] \notin dead}

Abs(x) == IF x < 0 THEN -x ELSE x
Max2(a, b) == IF a >= b THEN a ELSE b
Min2(a, b) == IF a <= b THEN a ELSE b
Has(r, f) == f \in DOMAIN r
=============================================================================
