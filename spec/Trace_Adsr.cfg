SPECIFICATION TSpec
CONSTANTS
  AccBits = 24
  IdxBits = 10
  QBits = 24
  Rollover = "carry"
  FracMode = "cell"
  AttTab <- AttFn
  DecTab <- DecFn
POSTCONDITION Report
CHECK_DEADLOCK FALSE
