---------------------------- MODULE MC_Quantizer ----------------------------
(***************************************************************************)
(* Bounded instance of Quantizer.tla: PC pitch classes, MaxOct octaves, SU  *)
(* units per semitone; all histories of allow / forbid / convert over every *)
(* input on the unit grid from below 0 to above the range.                  *)
(***************************************************************************)
EXTENDS Quantizer, TLC, Json

CONSTANTS Emit

VARIABLES kind,      \* ghost: kind of the last call ("new","al","fb","cv")
          prevU,     \* ghost: previous input, -1000 after an edit / at start
          asc,       \* ghost: inputs non-decreasing since the scale was last edited
          band,      \* ghost: chromatic boundary (note index) all inputs since `base` stayed close to, or -1
          changes,   \* ghost: note changes since the first conversion inside the band
          fr,        \* ghost (C19): fraction of the last conversion = input used - Volt(note), in units
          kept       \* ghost (C19): the last conversion kept the previous note through the window

mcVars == <<qVars, kind, prevU, asc, band, changes, fr, kept>>

Inputs == (-SU)..(VMax + 2 * SU)
Scales == (SUBSET (0..(PC - 1))) \ {{}}
RuleDom == 0..VMax                    \* clamped inputs the memoised rule is needed for
AllowSeqs == {<<k>> : k \in 0..PC}

\* Rule for every scale and input, computed once
RuleTab == IF Emit THEN <<>> ELSE [A \in Scales |-> [u \in RuleDom |-> Rule(A, u)]]   \* (constants are evaluated eagerly)
RuleMemo(A, u) == RuleTab[A][u]

NearBoundary(u) == IF \E b \in 0..(Top + 1) : AbsQ(u - Volt(b)) < HystU
                     THEN CHOOSE b \in 0..(Top + 1) : AbsQ(u - Volt(b)) < HystU ELSE -1

Lbl(op) == Emit => PrintT(<<"EDGE", ToJson(<<qVars, op, qVars', <<last', allowed'>>>>)>>)

TConvert(u) ==
  /\ Convert(u) /\ kind' = "cv"
  /\ prevU' = u
  /\ asc' = (prevU = -1000 \/ (asc /\ u >= prevU))
  /\ band' = NearBoundary(u)
  /\ changes' = IF band' # -1 /\ band' = band THEN (IF changes + (IF last' # last THEN 1 ELSE 0) > 2 THEN 2 ELSE changes + (IF last' # last THEN 1 ELSE 0)) ELSE 0
  /\ kept' = Keeps(u)
  /\ fr' = (IF Keeps(u) THEN u ELSE Clamp(u)) - Volt(last')
  /\ Lbl([op |-> "cv", u |-> u, k |-> Keeps(u)])
TAllow(k)  == /\ Allow(k) /\ kind' = "al" /\ prevU' = -1000 /\ asc' = TRUE /\ band' = -1 /\ changes' = 0
              /\ UNCHANGED <<fr, kept>>
              /\ Lbl([op |-> "al", ns |-> k])
TForbid(s) == /\ Forbid(s) /\ kind' = "fb" /\ prevU' = -1000 /\ asc' = TRUE /\ band' = -1 /\ changes' = 0
              /\ UNCHANGED <<fr, kept>>
              /\ Lbl([op |-> "fb", ns |-> s])

ForbidSeqs == {<<k>> : k \in 0..PC} \cup {<<j, k>> : j \in 0..(PC - 1), k \in 0..(PC - 1)}
              \cup {[i \in 1..PC |-> (i + k) % PC] : k \in 0..(PC - 1)}

MCInit == QInit /\ kind = "new" /\ prevU = -1000 /\ asc = TRUE /\ band = -1 /\ changes = 0 /\ fr = 0 /\ kept = FALSE
          /\ (Emit => PrintT(<<"INIT", ToJson(<<qVars, <<last, allowed>>>>)>>))
MCNext == \/ \E u \in Inputs : TConvert(u)
          \/ \E k \in AllowSeqs : TAllow(k)
          \/ \E s \in ForbidSeqs : TForbid(s)
MCSpec == MCInit /\ [][MCNext]_mcVars

\* ---- every-transition replay graph on the real Quantizer (Graph_Quantizer.cfg: PC = 12, MaxOct = 10,
\* SU = 20, i.e. one unit = 1/240 V): scales reached by editing C, G, B and "all the others"; inputs two
\* and more units away from every bucket border, window edge and nearest-note midpoint (all of which sit
\* on even units), in the bottom octave and in the two top ones, plus one input below the range (an input above it is clamped
\* onto 10 V exactly, the voltage of a note, where two notes of a scale without C tie)
GNotes  == (0..12) \cup (107..120)
GInputs == {u \in {SU * n + d : n \in GNotes, d \in {-3, -1, 1, 3, 9, 11}} : u < VMax} \cup {-SU}
GOthers == <<1, 2, 3, 4, 5, 6, 8, 9, 10>>
GAllowSeqs  == {<<0>>, <<7>>, <<11>>, <<12>>, GOthers}
GForbidSeqs == {<<0>>, <<7>>, <<11>>, <<200>>, GOthers, <<0, 7>>, [i \in 1..12 |-> (i + 7) % 12]}
GScales == {A \in (SUBSET (0..(PC - 1))) \ {{}} : (A \cap {1, 2, 3, 4, 5, 6, 8, 9}) \in {{}, {1, 2, 3, 4, 5, 6, 8, 9}}}
GRuleDom == {Clamp(u) : u \in GInputs}
\* thorough tier (Graph_Quantizer_big.cfg): E is edited on its own as well, and the middle of the range is added
G2Notes  == (0..13) \cup (58..62) \cup (106..120)
G2Inputs == {u \in {SU * n + d : n \in G2Notes, d \in {-3, -1, 1, 3, 9, 11}} : u < VMax} \cup {-SU}
G2AllowSeqs  == GAllowSeqs \cup {<<4>>}
G2ForbidSeqs == GForbidSeqs \cup {<<4>>, <<4, 11>>}
G2Scales == {A \in (SUBSET (0..(PC - 1))) \ {{}} : (A \cap {1, 2, 3, 5, 6, 8, 9}) \in {{}, {1, 2, 3, 5, 6, 8, 9}}}
G2RuleDom == {Clamp(u) : u \in G2Inputs}

TypeOK == allowed \in Scales /\ last \in 0..Top /\ hist \in BOOLEAN

\* ---- C07 ----
Prop_C07 == [][kind' = "cv" => (last' % PC) \in allowed']_mcVars
Prop_C07_forbid == [][\A s \in ForbidSeqs : (Forbid(s) /\ allowed \ SeqSet(s) = {}) => allowed' = {ClampNote(s[Len(s)])}]_mcVars

\* ---- C09 ----
Prop_C09_stable == [][(kind' = "cv" /\ LastValid /\ InWindow(last, prevU', 0)) => last' = last]_mcVars
Prop_C09_free   == [][(kind' = "cv" /\ ~(LastValid /\ InWindow(last, prevU', 0))) => last' = RuleMemo(allowed, Clamp(prevU'))]_mcVars
\* (for the chromatic scale: between two distant notes of a sparse scale the decision point is a
\* nearest-note midpoint, which the statement's window does not cover)
Inv_C09_chatter == allowed = 0..(PC - 1) => changes <= 1
Prop_C09_mono   == [][(kind' = "cv" /\ kind = "cv" /\ asc') => last' >= last]_mcVars

\* ---- C19 (symbolic: stairstep = Volt(note), fraction = input used - stairstep) ----
\* stairstep + fraction is the input, or the clamped input on the search path
Inv_C19_sum == kind = "cv" => (Volt(last) + fr = prevU \/ Volt(last) + fr = Clamp(prevU))
\* kept by the window: fraction within [-H, SU + H]; chromatic scale, in-range input, not kept: [0, SU)
Inv_C19_window == (kind = "cv" /\ kept) => (-HystU < fr /\ fr < SU + HystU)
Inv_C19_chromatic == (kind = "cv" /\ ~kept /\ allowed = 0..(PC - 1) /\ prevU >= 0 /\ prevU < VMax) => (0 <= fr /\ fr < SU)

\* ---- C08: theorems about the memoryless rule, for every scale and every input of the instance ----
Thm_C08_mono == Emit \/ \A A \in Scales : \A u \in 0..(VMax - 1) : Rule(A, u) <= Rule(A, u + 1)
Thm_C08_octave == Emit \/ \A A \in Scales : \A u \in Oct..(VMax - 2 * Oct) : Rule(A, u + Oct) = Rule(A, u) + PC
Thm_C08_chromatic == Emit \/ \A u \in 0..VMax : Rule(0..(PC - 1), u) = u \div SU
Thm_C08_allowed == Emit \/ \A A \in Scales : \A u \in 0..VMax : (Rule(A, u) % PC) \in A
\* the set of inputs for which a note is admissible is an interval (so checking the two ends of a
\* run of equal answers checks the whole run)
Thm_C08_convex == Emit \/ \A A \in Scales : \A n \in 0..Top :
                    LET S == {u \in 0..VMax : Accept(A, u, n)}
                    IN S = {} \/ \A x \in (CHOOSE a \in S : \A b \in S : a <= b)..(CHOOSE a \in S : \A b \in S : a >= b) : x \in S
\* the rule evaluated over the notes within an octave of the input only (what the replay graph uses at
\* the real size): the same function, because every octave of a non-empty scale holds an allowed note
RuleLocal(A, u) ==
  LET c == u \div SU
      W == {n \in (c - PC)..(c + PC) : n >= 0 /\ n <= Top /\ (n % PC) \in A}
      B == {n \in W : Volt(n) <= u /\ u < Volt(n) + SU}
      N == {n \in W : \A m \in W : AbsQ(Volt(n) - u) <= AbsQ(Volt(m) - u)}
  IN Lowest(IF B # {} THEN B ELSE N)
Thm_RuleLocal == Emit \/ \A A \in Scales : \A u \in 0..VMax : RuleLocal(A, u) = Rule(A, u)
GRuleTab == IF Emit /\ Inputs = GInputs THEN [A \in GScales |-> [u \in GRuleDom |-> RuleLocal(A, u)]] ELSE <<>>
GRuleMemo(A, u) == GRuleTab[A][u]
G2RuleTab == IF Emit /\ Inputs = G2Inputs THEN [A \in G2Scales |-> [u \in G2RuleDom |-> RuleLocal(A, u)]] ELSE <<>>
G2RuleMemo(A, u) == G2RuleTab[A][u]
(* every theorem here is trivially true in the replay-graph configuration (Emit), which only prints edges *)
ASSUME Thm_RuleLocal
ASSUME Thm_C08_mono
ASSUME Thm_C08_octave
ASSUME Thm_C08_chromatic
ASSUME Thm_C08_allowed
ASSUME Thm_C08_convex
=============================================================================
