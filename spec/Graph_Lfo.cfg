\* every-transition replay graph for the real Lfo at fs = 128 Hz: frequency 2*i Hz gives the exact
\* increment i * 2^18, the model accumulator is the real one >> 18
SPECIFICATION MCSpec
CONSTANTS
  AccBits = 6
  IdxBits = 3
  Rollover = "carry"
  FracMode = "cell"
  SineWrap = "size"
  SinTab <- Sin8
  Incs = {0, 1, 3, 16, 63, 64}
  Emit = TRUE
VIEW GView
CHECK_DEADLOCK FALSE
