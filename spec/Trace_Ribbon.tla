----------------------------- MODULE Trace_Ribbon -----------------------------
(***************************************************************************)
(* Implementation -> specification trace validation for the ribbon         *)
(* controller (C15, C16).  Samples are integer codes x on a power-of-two     *)
(* grid: the real controller is polled with x/den, exact in f32 (den = 2^12: *)
(* ADC codes; 2^22: fine finger positions; 2^24: every f32 in [0.5, 1), in   *)
(* particular the press boundary itself).                                    *)
(*                                                                          *)
(* Events:                                                                  *)
(*  {"op":"new","fs":Hz,"fr":K,"den":d,"cap":N,"thr":code,"bq":Q24,"ecq":Q24} *)
(*      (the buffer has N = sample_rate_to_capacity(cfs) cells; the          *)
(*      controller is told cfs + fr Hz, which it truncates to fs whole Hz:   *)
(*      settling and lift allowance follow fs, the capture length follows N) *)
(*      RibbonController::<N>::new(fs, softpot, dropper, pullup) with       *)
(*      N = sample_rate_to_capacity(fs); thr = smallest code that is NOT    *)
(*      below the press boundary; bq = boundary, ecq = (softpot+dropper)/   *)
(*      pullup, both Q24                                                    *)
(*  {"op":"p","x":code,"pr":b,"k":K(value),"q":Q24(value)}   poll(x/4096)   *)
(*  {"op":"jp","r":b} / {"op":"jr","r":b}    finger_just_pressed/released   *)
(*  {"op":"pair","kind":"same"|"raise","ka":K,"kb":K,...}   two controllers *)
(*      driven in lock-step with sample sequences that differ only in       *)
(*  {"op":"mark"} ... {"op":"rep","n":k}   run-length compression of k      *)
(*      identical repetitions (see Trace_Midi)                              *)
(*      samples that must not matter ("same": an earlier press / the newest *)
(*      discarded samples) or in one contributing sample raised ("raise")   *)
(***************************************************************************)
EXTENDS Ribbon, TraceLib, Tables

VARIABLES l, dead, lastK, bq, ecq, den, snap,
          pend    \* <<presses, releases>> not yet reported by an edge getter (a getter may report them one
                  \* by one, or all at once like the self-clearing flags of the code as built)

tvars == <<rVars, l, dead, lastK, bq, ecq, den, snap, pend>>

e == Rec[l]

\* floor(x * y / 2^24) for 0 <= x, y <= 2^25 in 32-bit integers (12-bit limbs)
MulQ(x, y) ==
  LET h == 4096
      x1 == x \div h  x0 == x % h
      y1 == y \div h  y0 == y % h
  IN x1 * y1 + (x1 * y0 + x0 * y1 + (x0 * y0) \div h) \div h

\* mean of n codes with sum s, as a Q24 fraction of full scale (code / den)
Scale == 16777216 \div den
\* (n <= 0: a controller whose buffer is no longer than the lift allowance - reported where it is built, as
\* C15:capacity; the mean is then left at 0 rather than dividing by zero)
MeanQ(s, n) == IF n <= 0 THEN 0 ELSE (s \div n) * Scale + ((s % n) * Scale) \div n
\* the pull-up correction of the code: m - (m - m^2) * ec
CorrQ(m) == m - MulQ(m - MulQ(m, m), ecq)

Advance(tags) ==
  /\ l' = l + 1
  /\ dead' = dead \cup PropsOf(tags)
  /\ Flag(l, LiveTags(tags, dead))

PollTags ==
       (IF e.pr # pressing' THEN {<<"C15", "press-state">>} ELSE {})
  \cup (IF e.k = NaNKey \/ e.k < 0 \/ e.k > KeyOne THEN {<<"C16", "range">>} ELSE {})
  \cup (IF ~pressing' /\ e.k # lastK THEN {<<"C16", "not-retained">>} ELSE {})
  \cup (IF pressing' /\ e.pr /\ e.q # NaNKey /\
          ~Near(MulQ(e.q, bq), CorrQ(MeanQ(val'[1], val'[2])), val'[2] + 16)
          THEN {<<"C16", "value">>} ELSE {})

TMeta == e.op = "meta" /\ UNCHANGED <<rVars, dead, lastK, bq, ecq, den, snap, pend>> /\ l' = l + 1

TNew ==
  /\ e.op = "new"
  /\ LET cfs == IF Has(e, "cfs") THEN e.cfs ELSE e.fs     \* the rate the buffer was sized for
         want == (cfs * 15) \div 1000 + cfs \div 500 + 1     \* sample_rate_to_capacity(cfs)
         c == [ig |-> e.fs \div 1000, dc |-> e.fs \div 500, cap |-> e.cap, thr |-> e.thr]
     IN /\ cfg' = c /\ run' = 0 /\ win' = <<>> /\ sum' = 0
        /\ pressing' = FALSE /\ jp' = FALSE /\ jr' = FALSE /\ val' = <<0, 1>>
        /\ Flag(l, IF e.cap # want THEN {<<"C15", "capacity">>} ELSE {})
  /\ lastK' = 0 /\ bq' = e.bq /\ ecq' = e.ecq /\ snap' = <<>> /\ pend' = <<0, 0>>
  /\ den' = IF Has(e, "den") THEN e.den ELSE 4096
  /\ l' = l + 1 /\ dead' = {}

TPoll ==
  /\ e.op = "p"
  /\ Poll(e.x)
  /\ pend' = <<Min2(pend[1] + (IF pressing' /\ ~pressing THEN 1 ELSE 0), 1000000),
               Min2(pend[2] + (IF ~pressing' /\ pressing THEN 1 ELSE 0), 1000000)>>
  /\ lastK' = e.k /\ UNCHANGED <<bq, ecq, den, snap>>
  /\ Advance(PollTags)

\* "true exactly once per change": a true needs an unreported change, a false is wrong while the latch of
\* the specification still holds one (several unreported changes of the same direction may be reported by
\* one true, as built, or one by one)
TJP == /\ e.op = "jp" /\ PollJP /\ UNCHANGED <<lastK, bq, ecq, den, snap>>
       /\ pend' = <<IF e.r /\ pend[1] > 0 THEN pend[1] - 1 ELSE pend[1], pend[2]>>
       /\ Advance(IF (e.r /\ pend[1] = 0) \/ (~e.r /\ jp) THEN {<<"C15", "just-pressed">>} ELSE {})
TJR == /\ e.op = "jr" /\ PollJR /\ UNCHANGED <<lastK, bq, ecq, den, snap>>
       /\ pend' = <<pend[1], IF e.r /\ pend[2] > 0 THEN pend[2] - 1 ELSE pend[2]>>
       /\ Advance(IF (e.r /\ pend[2] = 0) \/ (~e.r /\ jr) THEN {<<"C15", "just-released">>} ELSE {})

TPair ==
  /\ e.op = "pair"
  /\ UNCHANGED <<rVars, lastK, bq, ecq, den, snap, pend>>
  /\ l' = l + 1 /\ dead' = dead
  /\ Flag(l, (IF ~e.pa \/ ~e.pb THEN {<<"C15", "press-state">>} ELSE {})
        \cup (IF e.kind = "same" /\ e.ka # e.kb THEN {<<"C16", "depends-on-excluded-sample">>} ELSE {})
        \cup (IF e.kind = "raise" /\ e.kb < e.ka THEN {<<"C16", "not-monotone">>} ELSE {}))

TPanic == /\ e.op = "panic" /\ UNCHANGED <<rVars, lastK, bq, ecq, den, snap, pend>> /\ Advance({<<"C17", "panic">>, <<"C15", "panic">>, <<"C16", "panic">>})

TMark == e.op = "mark" /\ snap' = <<rVars, lastK, pend>> /\ UNCHANGED <<rVars, dead, lastK, bq, ecq, den, pend>> /\ l' = l + 1
\* k further identical repetitions: each leaves as many unreported edges behind as the marked one did
TRep  == /\ e.op = "rep" /\ UNCHANGED <<rVars, lastK, bq, ecq, den, snap>>
         /\ pend' = IF snap = <<>> THEN pend
                    ELSE <<Min2(pend[1] + Min2(e.n, 1000000) * Min2(pend[1] - snap[3][1], 1000), 1000000),
                           Min2(pend[2] + Min2(e.n, 1000000) * Min2(pend[2] - snap[3][2], 1000), 1000000)>>
         /\ Advance(IF snap # <<>> /\ <<snap[1], snap[2]>> = <<rVars, lastK>> THEN {}
                    ELSE {<<"C15", "repetition-not-a-cycle">>, <<"C16", "repetition-not-a-cycle">>})

TNext == l <= NRec /\ (TMark \/ TRep \/ TMeta \/ TNew \/ TPoll \/ TJP \/ TJR \/ TPair \/ TPanic)
TInit == /\ RInit([ig |-> 0, dc |-> 0, cap |-> 2, thr |-> 4096]) /\ l = 1 /\ dead = {} /\ lastK = 0
         /\ bq = 16777216 /\ ecq = 0 /\ den = 4096 /\ snap = <<>> /\ pend = <<0, 0>> /\ FlagInit
TSpec == TInit /\ [][TNext]_tvars
=============================================================================
