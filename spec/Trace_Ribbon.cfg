SPECIFICATION TSpec
CONSTANTS
  ResetOnTap = "always"
POSTCONDITION Report
CHECK_DEADLOCK FALSE
