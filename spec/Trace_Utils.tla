----------------------------- MODULE Trace_Utils -----------------------------
(***************************************************************************)
(* Trace validation for the numeric helpers (src/utils.rs, reached through  *)
(* the verif-hooks re-export).                                              *)
(*                                                                          *)
(*  {"op":"begin","what":"fabs"}              sweep over ALL f32 bit        *)
(*        patterns, reported as maximal runs over the order key             *)
(*  {"op":"run","lo":k,"hi":k,"kind":"id"|"neg"|"other"}   every key in     *)
(*        lo..hi is mapped to itself / to its negation                      *)
(*  {"op":"nan","count":n,"bad":n}            NaN patterns whose fabs is    *)
(*        not a NaN                                                         *)
(*  {"op":"end"}                                                            *)
(*  {"op":"ilog","x":n,"res":n}               ilog_2(x), x < 2^31           *)
(*  {"op":"ilogp","k":n,"off":-1|0|1,"res":n} ilog_2(2^k + off), k <= 63    *)
(*  {"op":"almost","cls":s,"res":b}           is_almost(v1, v2, eps) with   *)
(*        the exact position of |v1 - v2| relative to eps (Utils!AlmostOK)  *)
(*  {"op":"lerp","y0":K,"y1":K,"f":K,"res":K,"q0":Q,"q1":Q,"qr":Q,"first":b} *)
(*        linear_interp with |y0|, |y1| <= 2 (K: order keys, Q: Q24 images); *)
(*        a series with ascending f between the same end points follows a   *)
(*        "first" event                                                     *)
(***************************************************************************)
EXTENDS Utils, TraceLib, Tables

VARIABLES l, nextKey, sawNan, lastR, lastF

tvars == <<l, nextKey, sawNan, lastR, lastF>>
e == Rec[l]

Step(tags) == l' = l + 1 /\ Flag(l, tags)

\* the helpers serve every table read-out (C03, C12), the LFO/ADSR index width (C10, C01) and the
\* glide's cache test (C14)
TBegin == e.op = "begin" /\ nextKey' = -KeyInf /\ sawNan' = FALSE /\ UNCHANGED <<lastR, lastF>> /\ Step({})

RunTags ==
       (IF e.lo # nextKey \/ e.hi < e.lo THEN {<<"C14", "fabs-sweep-not-contiguous">>} ELSE {})
  \cup (IF e.kind = "id"  /\ e.lo < 0 THEN {<<"C14", "fabs-negative-kept">>} ELSE {})
  \cup (IF e.kind = "neg" /\ e.hi > 0 THEN {<<"C14", "fabs-positive-negated">>} ELSE {})
  \cup (IF e.kind \notin {"id", "neg"} THEN {<<"C14", "fabs-not-absolute-value">>} ELSE {})
TRun == e.op = "run" /\ nextKey' = e.hi + 1 /\ UNCHANGED <<sawNan, lastR, lastF>> /\ Step(RunTags)
TNan == e.op = "nan" /\ sawNan' = TRUE /\ UNCHANGED <<nextKey, lastR, lastF>>
        /\ Step({})      \* the absolute value of a NaN is not specified
TEnd == e.op = "end" /\ UNCHANGED <<nextKey, sawNan, lastR, lastF>>
        /\ Step(IF nextKey # KeyInf + 1 \/ ~sawNan THEN {<<"C14", "fabs-sweep-incomplete">>} ELSE {})

IlogTags(ok) == IF ok THEN {} ELSE {<<"C10", "ilog2">>, <<"C01", "ilog2">>}
TIlog  == e.op = "ilog" /\ UNCHANGED <<nextKey, sawNan, lastR, lastF>> /\ Step(IlogTags(e.res = ILog2(e.x)))
TIlogP == e.op = "ilogp" /\ UNCHANGED <<nextKey, sawNan, lastR, lastF>>
          /\ Step(IlogTags(e.res = (IF e.off = -1 THEN (IF e.k >= 1 THEN e.k - 1 ELSE 0)
                                    ELSE IF e.off = 1 /\ e.k = 0 THEN 1 ELSE e.k)))

TAlmost == e.op = "almost" /\ UNCHANGED <<nextKey, sawNan, lastR, lastF>>
           /\ Step(IF AlmostOK(e.cls, e.res) THEN {} ELSE {<<"C14", "is-almost">>})

LerpTags ==
       (IF e.res = NaNKey \/ ~InHull(e.qr, e.q0, e.q1) THEN {<<"C03", "interp-outside-hull">>, <<"C12", "interp-outside-hull">>} ELSE {})
  \cup (IF e.f = 0 /\ e.res # e.y0 THEN {<<"C03", "interp-at-zero">>, <<"C12", "interp-at-zero">>} ELSE {})
  \cup (IF ~e.first /\ e.f >= lastF /\ e.res # NaNKey /\ lastR # NaNKey
           /\ ((e.y0 <= e.y1 /\ e.qr < lastR - 2) \/ (e.y0 >= e.y1 /\ e.qr > lastR + 2))
          THEN {<<"C03", "interp-not-monotone">>, <<"C12", "interp-not-monotone">>} ELSE {})
TLerp == e.op = "lerp" /\ lastR' = (IF e.res = NaNKey THEN NaNKey ELSE e.qr) /\ lastF' = e.f /\ UNCHANGED <<nextKey, sawNan>> /\ Step(LerpTags)

TMeta  == e.op \in {"meta", "new"} /\ UNCHANGED <<nextKey, sawNan, lastR, lastF>> /\ l' = l + 1
TPanic == e.op = "panic" /\ UNCHANGED <<nextKey, sawNan, lastR, lastF>> /\ Step({<<"C17", "panic">>})

TNext == l <= NRec /\ (TMeta \/ TBegin \/ TRun \/ TNan \/ TEnd \/ TIlog \/ TIlogP \/ TAlmost \/ TLerp \/ TPanic)
TInit == l = 1 /\ nextKey = 0 /\ sawNan = FALSE /\ lastR = 0 /\ lastF = 0 /\ FlagInit
TSpec == TInit /\ [][TNext]_tvars
=============================================================================
