-------------------------------- MODULE Adsr --------------------------------
(***************************************************************************)
(* ADSR envelope generator (src/adsr.rs) on the shared phase accumulator.   *)
(*                                                                          *)
(* One action per public call: GateOn, GateOff, Tick, SetStep(which, i)     *)
(* (set_input of one of the three times; the time is represented by the     *)
(* per-tick increment it produces), SetSustain(s).  Tick is structured as   *)
(* the code is: select the increment of the active phase, advance the       *)
(* accumulator, on a carry reset it and move to the next phase, then        *)
(* compute the output from the (new) phase and position.                    *)
(*                                                                          *)
(* Values are fixed point with Q = 2^QBits full scale.  The curves are the  *)
(* CONSTANT functions AttTab, DecTab : 0..Size -> 0..Q sampled at the cell  *)
(* borders (AttTab[0] = 0, AttTab[Size] = Q, DecTab[0] = Q, DecTab[Size]=0, *)
(* monotone) and interpolated linearly inside a cell.                       *)
(*                                                                          *)
(* The building blocks PhaseStep / Value / the C0x predicates are written   *)
(* as relations over (state, state') so that the trace specification can    *)
(* evaluate them on observed steps of the real code.                        *)
(***************************************************************************)
EXTENDS PhaseAcc

CONSTANTS QBits, AttTab, DecTab

VARIABLES phase,    \* "rest" | "attack" | "decay" | "sustain" | "release"
          lvlOn,    \* output level latched by the gate-on that started the current attack
          lvlOff,   \* output level latched by the gate-off that started the current release
          val,      \* current output, 0..Q
          S,        \* sustain level, 0..Q
          step      \* [a, d, r |-> per-tick increment of attack, decay, release]

adsrVars == <<paVars, phase, lvlOn, lvlOff, val, S, step>>

Q == 2 ^ QBits
HalfBits == QBits \div 2

Timed == {"attack", "decay", "release"}
NextPhase(p) == CASE p = "attack" -> "decay" [] p = "decay" -> "sustain" [] p = "release" -> "rest"
                  [] OTHER -> p
StepOf(p) == CASE p = "attack" -> step.a [] p = "decay" -> step.d [] p = "release" -> step.r

\* floor(x * y / Q) for 0 <= x, y <= Q without leaving 32-bit integers (12-bit limbs when Q = 2^24)
MulQ(x, y) ==
  IF QBits <= 15 THEN (x * y) \div Q
  ELSE LET h  == 2 ^ HalfBits
           x1 == x \div h  x0 == x % h
           y1 == y \div h  y0 == y % h
       IN x1 * y1 + (x1 * y0 + x0 * y1 + (x0 * y0) \div h) \div h

\* the curves at accumulator position a (interpolated inside the cell; the position just past the
\* last border does not exist: a < M)
CurveAt(tab, a) == LET i == a \div C
                       f == IF FracMode = "cell" THEN a % C ELSE a \div Size
                   IN tab[i] + ((tab[i + 1] - tab[i]) * f) \div C
Att(a) == CurveAt(AttTab, a)
Dec(a) == CurveAt(DecTab, a)

\* the output as a function of phase, position and the latched levels
Value(p, a, on, off, s) ==
  CASE p = "attack"  -> on + MulQ(Q - on, Att(a))
    [] p = "decay"   -> s + MulQ(Q - s, Dec(a))
    [] p = "sustain" -> s
    [] p = "release" -> MulQ(off, Dec(a))
    [] p = "rest"    -> 0

\* ---- relations -----------------------------------------------------------------------------
\* accumulator/phase part of a tick that uses increment i
PhaseStep(i) ==
  IF phase \in Timed THEN
    LET sum  == acc + i
        nxt  == sum % M
        roll == IF Rollover = "carry" THEN sum >= M ELSE nxt < lastAcc
    IN IF roll THEN acc' = 0 /\ lastAcc' = 0 /\ phase' = NextPhase(phase)
               ELSE acc' = nxt /\ lastAcc' = nxt /\ phase' = phase
  ELSE UNCHANGED <<acc, lastAcc, phase>>

\* ---- public operations ---------------------------------------------------------------------
Tick ==
  /\ PhaseStep(IF phase \in Timed THEN StepOf(phase) ELSE 0)
  /\ val' = Value(phase', acc', lvlOn, lvlOff, S)
  /\ inc' = (IF phase \in Timed THEN StepOf(phase) ELSE inc)
  /\ rolled' = FALSE
  /\ UNCHANGED <<lvlOn, lvlOff, S, step>>

GateOn ==
  IF phase # "attack"
    THEN /\ lvlOn' = val /\ acc' = 0 /\ lastAcc' = 0 /\ rolled' = FALSE /\ phase' = "attack"
         /\ UNCHANGED <<inc, lvlOff, val, S, step>>
    ELSE UNCHANGED adsrVars

GateOff ==
  IF phase \in {"attack", "decay", "sustain"}
    THEN /\ lvlOff' = val /\ acc' = 0 /\ lastAcc' = 0 /\ rolled' = FALSE /\ phase' = "release"
         /\ UNCHANGED <<inc, lvlOn, val, S, step>>
    ELSE UNCHANGED adsrVars

SetStep(w, i)  == /\ step' = [step EXCEPT ![w] = i]
                  /\ UNCHANGED <<paVars, phase, lvlOn, lvlOff, val, S>>
SetSustain(s)  == /\ S' = s
                  /\ UNCHANGED <<paVars, phase, lvlOn, lvlOff, val, step>>

AdsrInit(i0) ==
  /\ PA_Init /\ phase = "rest" /\ lvlOn = 0 /\ lvlOff = 0 /\ val = 0 /\ S = Q
  /\ step = [a |-> i0, d |-> i0, r |-> i0]

\* ---- properties as state / step predicates ---------------------------------------------------
Inv_C01_range == 0 <= val /\ val <= Q

\* exact end levels, on a tick
C01_ends ==
  /\ (phase = "attack" /\ phase' = "decay") => val' = Q
  /\ phase' = "sustain" => val' = S
  /\ phase' = "rest" => val' = 0

\* monotone inside a phase between events (cont: no gate / sustain event since the previous tick)
C01_monotone(cont) ==
  (cont /\ phase' = phase) =>
     /\ phase = "attack" => val' >= val
     /\ phase \in {"decay", "release"} => val' <= val
     /\ phase = "sustain" => val' = val

\* allowed phase changes per kind of call
C02_order(kind) ==
  CASE kind = "on"   -> phase' = "attack" /\ (phase = "attack" => UNCHANGED <<acc, lvlOn>>)
    [] kind = "off"  -> IF phase \in {"attack", "decay", "sustain"} THEN phase' = "release"
                        ELSE phase' = phase /\ acc' = acc
    [] kind = "tick" -> phase' = phase \/ (phase \in Timed /\ phase' = NextPhase(phase))
    [] kind = "set"  -> phase' = phase /\ acc' = acc

\* steepest slope of a curve: largest difference between neighbouring table entries (per cell)
AbsD(x) == IF x < 0 THEN -x ELSE x
=============================================================================
