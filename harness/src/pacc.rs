//! The generic phase accumulator on its own, at several widths: trace recording, re-execution and
//! graph replay (PhaseAccumulator<4,2>, <6,3>, <5,5>, <5,0> are small enough for TLC to enumerate
//! every state of the same-width specification).
use crate::exact::*;
use crate::util::*;
use synth_utils::verif_hooks::PhaseAccumulator;

pub trait Pa {
    fn tick(&mut self);
    fn set_frequency(&mut self, f: f32);
    fn set_period(&mut self, p: f32);
    fn set_phase(&mut self, p: f32);
    fn ramp(&self) -> f32;
    fn index(&self) -> usize;
    fn fraction(&self) -> f32;
    fn rolled_over(&mut self) -> bool;
    fn reset(&mut self);
    fn acc(&self) -> u32;
    fn copy(&self) -> Box<dyn Pa>;
}

impl<const W: u32, const I: u32> Pa for PhaseAccumulator<W, I> {
    fn tick(&mut self) {
        PhaseAccumulator::tick(self)
    }
    fn set_frequency(&mut self, f: f32) {
        PhaseAccumulator::set_frequency(self, f)
    }
    fn set_period(&mut self, p: f32) {
        PhaseAccumulator::set_period(self, p)
    }
    fn set_phase(&mut self, p: f32) {
        PhaseAccumulator::set_phase(self, p)
    }
    fn ramp(&self) -> f32 {
        PhaseAccumulator::ramp(self)
    }
    fn index(&self) -> usize {
        PhaseAccumulator::index(self)
    }
    fn fraction(&self) -> f32 {
        PhaseAccumulator::fraction(self)
    }
    fn rolled_over(&mut self) -> bool {
        PhaseAccumulator::rolled_over(self)
    }
    fn reset(&mut self) {
        PhaseAccumulator::reset(self)
    }
    fn acc(&self) -> u32 {
        self.verif_accumulator()
    }
    fn copy(&self) -> Box<dyn Pa> {
        Box::new(*self)
    }
}

pub const WIDTHS: [(u32, u32); 10] =
    [(4, 2), (6, 3), (5, 5), (5, 0), (8, 3), (12, 12), (16, 4), (24, 8), (24, 10), (28, 10)];

fn make(w: u32, i: u32, fs: f32) -> Option<Box<dyn Pa>> {
    macro_rules! widths {
        ($( ($w:literal, $i:literal) ),*) => {
            match (w, i) {
                $( ($w, $i) => Some(Box::new(PhaseAccumulator::<$w, $i>::new(fs)) as Box<dyn Pa>), )*
                _ => None,
            }
        };
    }
    widths!((4, 2), (6, 3), (5, 5), (5, 0), (8, 3), (12, 12), (16, 4), (24, 8), (24, 10), (28, 10))
}

/// "pacc24_8" -> (24, 8)
pub fn parse_module(m: &str) -> Option<(u32, u32)> {
    let rest = m.strip_prefix("pacc")?;
    let mut it = rest.split('_');
    let w: u32 = it.next()?.parse().ok()?;
    let i: u32 = it.next()?.parse().ok()?;
    if WIDTHS.contains(&(w, i)) {
        Some((w, i))
    } else {
        None
    }
}

/// read-out of the object: `"a":..,"ix":..,"fq":..,"rq":..,"r1":..`
fn readout(p: &dyn Pa, w: u32, i: u32) -> String {
    let a = p.acc() as i64;
    let ix = p.index() as i64;
    let fr = p.fraction() as f64 * (2.0f64).powi((w - i) as i32);
    let fq = if fr.is_finite() && fr == fr.trunc() && fr.abs() < 2.0e9 { fr as i64 } else { -1 };
    let r = p.ramp();
    let rs = r as f64 * (2.0f64).powi(w as i32);
    let rq = if rs.is_finite() && rs.abs() < 2.0e9 { rs.round() as i64 } else { -1 };
    format!("\"a\":{},\"ix\":{},\"fq\":{},\"rq\":{},\"r1\":{}", a, ix.min(1 << 30), fq, rq, r >= 0.0 && r <= 1.0)
}

/// the increment in force, measured on a reset copy: (inc mod 2^w, inc >= 2^w)
fn measure_inc(p: &dyn Pa) -> (i64, bool) {
    let mut c = p.copy();
    c.reset();
    c.tick();
    let il = c.acc() as i64;
    (il, c.rolled_over())
}

/// classification of the exact ideal increment x = 2^w * num / den
fn ideal(x: Option<u128>, w: u32, nums: &[f32], dens: &[f32]) -> (&'static str, i64, i64) {
    // in the documented uses the increment never exceeds 10 counter ranges (a 1 ms envelope phase at a
    // 100 Hz sample rate; the LFO stays below one range): beyond 16 ranges nothing is expected
    let limit = 16u128 << w;
    match x {
        None => ("any", 0, 0),
        Some(v) if v > limit => ("any", 0, 0),
        Some(v) if v >= (1u128 << 32) + (1u128 << 11) => ("sat", 0, 0),
        Some(v) if v >= (1u128 << 30) => ("huge", 0, 0),
        Some(_) => match ratio_fix16(nums, dens, w as i32) {
            Some((fl, fr)) => ("num", fl, fr),
            None => ("huge", 0, 0),
        },
    }
}

pub struct Session<'a> {
    p: Option<Box<dyn Pa>>,
    w: u32,
    i: u32,
    fs: f32,
    out: &'a mut Out,
    pub stats: Stats,
    pub alive: bool,
}

impl<'a> Session<'a> {
    pub fn new(w: u32, i: u32, out: &'a mut Out) -> Self {
        Session { p: None, w, i, fs: 0.0, out, stats: Stats::new(), alive: false }
    }
    fn panic_event(&mut self, during: &str, msg: &str) {
        self.out.line(&format!("{{\"op\":\"panic\",\"during\":{},\"msg\":{}}}", jstr(during), jstr(msg)));
        self.stats.add("panics", 1);
        self.alive = false;
        self.p = None;
    }
    pub fn start(&mut self, fs: f32) {
        self.fs = fs;
        self.out.line(&format!("{{\"op\":\"new\",\"w\":{},\"i\":{},\"fs\":{}}}", self.w, self.i, key(fs)));
        self.stats.add("runs", 1);
        let (w, i) = (self.w, self.i);
        match guarded(|| make(w, i, fs)) {
            Ok(Some(p)) => {
                self.p = Some(p);
                self.alive = true;
                // the increment before the first request is not specified
                self.set_frequency(0.0);
            }
            Ok(None) => {
                eprintln!("no PhaseAccumulator<{},{}> compiled in", w, i);
                std::process::exit(2)
            }
            Err(m) => self.panic_event("new", &m),
        }
    }
    fn op(&mut self, op: &str, extra: &str, f: impl FnOnce(&mut dyn Pa) -> String) {
        if !self.alive {
            return;
        }
        let (w, i) = (self.w, self.i);
        let p = self.p.as_mut().unwrap();
        match guarded(|| {
            let more = f(p.as_mut());
            (more, readout(p.as_ref(), w, i))
        }) {
            Ok((more, rd)) => self.out.line(&format!("{{\"op\":\"{}\"{}{},{}}}", op, extra, more, rd)),
            Err(m) => self.panic_event(op, &m),
        }
    }
    pub fn tick(&mut self) {
        self.op("t", "", |p| {
            p.tick();
            String::new()
        });
        self.stats.add("ticks", 1);
    }
    pub fn reset(&mut self) {
        self.op("r", "", |p| {
            p.reset();
            String::new()
        });
    }
    pub fn take(&mut self) {
        self.op("take", "", |p| format!(",\"res\":{}", p.rolled_over()));
        self.stats.add("takes", 1);
    }
    pub fn set_frequency(&mut self, f: f32) {
        // f = 0 must stop the counter; negative and NaN frequencies are outside every documented range
        let (kind, fl, fr) = if f == 0.0 {
            ("zero", 0, 0)
        } else if f.is_nan() || f < 0.0 {
            ("any", 0, 0)
        } else if f.is_infinite() {
            ("any", 0, 0)
        } else {
            ideal(ratio_floor(&[f], &[self.fs], self.w as i32), self.w, &[f], &[self.fs])
        };
        let extra = format!(",\"arg\":{},\"kind\":\"{}\",\"fl\":{},\"fr\":{}", key(f), kind, fl, fr);
        self.op("sf", &extra, |p| {
            p.set_frequency(f);
            let (il, big) = measure_inc(p);
            format!(",\"il\":{},\"big\":{}", il, big)
        });
        self.stats.add("set_frequency", 1);
    }
    pub fn set_period(&mut self, per: f32) {
        let (kind, fl, fr) = if per == f32::INFINITY {
            ("zero", 0, 0)
        } else if per.is_nan() || per < 0.0 || (per == 0.0 && per.is_sign_negative()) {
            ("any", 0, 0)
        } else if per == 0.0 || (1.0f32 / per).is_infinite() {
            ("any", 0, 0)
        } else {
            ideal(ratio_floor(&[], &[per, self.fs], self.w as i32), self.w, &[], &[per, self.fs])
        };
        let extra = format!(",\"arg\":{},\"kind\":\"{}\",\"fl\":{},\"fr\":{}", key(per), kind, fl, fr);
        self.op("sper", &extra, |p| {
            p.set_period(per);
            let (il, big) = measure_inc(p);
            format!(",\"il\":{},\"big\":{}", il, big)
        });
        self.stats.add("set_period", 1);
    }
    pub fn set_phase(&mut self, ph: f32) {
        let (kind, lo, hi) = if ph.is_finite() {
            let fr = ph.abs() % 1.0; // exact in f32
            // the counter may be scaled by its range 2^w or by its largest value 2^w - 1 (as built)
            let mask = ((1u64 << self.w) - 1) as f32;
            let lo = (mask as f64) * (fr as f64); // exact in f64
            let hi = ((1u64 << self.w) as f64) * (fr as f64);
            ("num", lo.floor() as i64, hi.ceil() as i64)
        } else {
            ("nonfinite", 0, 0)
        };
        // a negative phase may be mirrored (|p|, as built) or wrapped (p mod 1 in [0, 1)): both depend on p
        // modulo 1 only; wlo / whi bound the wrapped position
        let (wlo, whi) = if ph.is_finite() && ph < 0.0 {
            let fr = (ph.abs() % 1.0) as f64;
            let wf = if fr == 0.0 { 0.0 } else { 1.0 - fr };
            let m = (1u64 << self.w) as f64;
            (((m - 1.0) * wf).floor() as i64 - 1, (m * wf).ceil() as i64 + 1)
        } else {
            (lo, hi)
        };
        let extra = format!(
            ",\"arg\":{},\"kind\":\"{}\",\"neg\":{},\"lo\":{},\"hi\":{},\"wlo\":{},\"whi\":{}",
            key(ph), kind, ph < 0.0, lo, hi, wlo, whi
        );
        self.op("sp", &extra, |p| {
            p.set_phase(ph);
            String::new()
        });
        self.stats.add("set_phase", 1);
    }
}

const RATES: [f32; 7] = [100.0, 999.0, 1000.0, 44100.0, 48000.0, 96000.0, 192000.0];

fn pick_freq(rng: &mut Rng, fs: f32, w: u32, extreme: bool) -> f32 {
    let m = (1u64 << w) as f64;
    match rng.below(if extreme { 16 } else { 12 }) {
        0 => 0.0,
        1 => fs,
        2 => (fs as f64 * rng.unit()) as f32,
        3 => fs / 2.0,
        // an increment of a few counts
        4 => ((rng.below(6) as f64 + 0.5) * fs as f64 / m) as f32,
        // whole multiples of the sample rate: increments that are multiples of the counter range
        5 => fs * (1 + rng.below(3)) as f32,
        // just around the counter range
        6 => (fs as f64 * (1.0 + (rng.unit() - 0.5) * 4.0 / m.min(1e6))) as f32,
        7 => (fs as f64 * (1.0 + rng.unit() * 3.0)) as f32,
        8 => rng.log_uniform(1e-4, fs as f64) as f32,
        9 => (fs as f64 * (1.0 - rng.unit() * 1e-6)) as f32,
        10 => f32::from_bits(rng.below(0x0080_0000) as u32), // subnormal
        11 => rng.log_uniform(fs as f64, fs as f64 * 4.0e9 / m.max(16.0)) as f32,
        12 => f32::MAX,
        13 => -rng.log_uniform(1e-3, 1e6) as f32,
        14 => *rng.pick(&[f32::NAN, f32::INFINITY, f32::NEG_INFINITY, -0.0]),
        _ => rng.log_uniform(1e-30, 1e30) as f32,
    }
}

fn pick_period(rng: &mut Rng, fs: f32, extreme: bool) -> f32 {
    match rng.below(if extreme { 10 } else { 6 }) {
        0 => 1.0 / fs,
        1 => rng.log_uniform(1e-3, 20.0) as f32,
        2 => 1.0,
        3 => (1.0 / (fs as f64 * (0.5 + rng.unit() * 3.0))) as f32,
        4 => rng.log_uniform(1e-6, 1e4) as f32,
        5 => (rng.below(2000) as f32 + 1.0) / fs,
        6 => *rng.pick(&[0.0, -0.0, f32::NAN, f32::INFINITY, f32::NEG_INFINITY, f32::MAX, f32::MIN_POSITIVE]),
        7 => -rng.log_uniform(1e-3, 1e3) as f32,
        8 => f32::from_bits(rng.below(0x0080_0000) as u32),
        _ => rng.log_uniform(1e-30, 1e30) as f32,
    }
}

fn pick_phase(rng: &mut Rng, extreme: bool) -> f32 {
    match rng.below(if extreme { 10 } else { 7 }) {
        0 => rng.unit() as f32,
        1 => *rng.pick(&[0.0, -0.0, 0.25, 0.5, 0.75, 1.0, 0.99999994, 5.9604645e-8, 0.49999997, 0.50000006]),
        2 => -(rng.unit() as f32),
        3 => (rng.unit() * 100.0) as f32,
        4 => -(rng.unit() * 100.0) as f32,
        5 => rng.below(5) as f32,
        6 => (1.0 - rng.unit() * 1e-6) as f32,
        7 => *rng.pick(&[f32::NAN, f32::INFINITY, f32::NEG_INFINITY, f32::MAX, f32::MIN]),
        8 => rng.log_uniform(1.0, 1e30) as f32,
        _ => -rng.log_uniform(1e-30, 1e30) as f32,
    }
}

/// random interleavings of every operation; bursts in which the latch is taken after every tick
fn drive_ops(s: &mut Session, rng: &mut Rng, thorough: bool) {
    let runs = if thorough { 400 } else { 60 };
    let w = s.w;
    for r in 0..runs {
        let fs = match rng.below(4) {
            0 => (1u64 << w) as f32, // frequency f gives exactly the increment f
            1 => rng.log_uniform(100.0, 192000.0) as f32,
            _ => *rng.pick(&RATES),
        };
        let extreme = r % 3 == 2;
        s.start(fs);
        if r % 6 == 5 {
            // the largest increment the register holds, ticked on and on with nobody taking the latch
            s.set_frequency(*rng.pick(&[f32::INFINITY, f32::MAX, 4.0e9 * fs]));
            for _ in 0..150 {
                s.tick();
            }
            s.take();
            s.take();
        }
        let n = if thorough { 400 } else { 160 };
        let mut i = 0;
        while i < n && s.alive {
            i += 1;
            match rng.below(20) {
                0 | 1 => s.set_frequency(pick_freq(rng, fs, w, extreme)),
                2 => s.set_period(pick_period(rng, fs, extreme)),
                3 => s.set_phase(pick_phase(rng, extreme)),
                4 => {
                    if rng.chance(1, 3) {
                        s.reset()
                    } else {
                        s.take()
                    }
                }
                5 | 6 => s.take(),
                7 => {
                    // a frequency divider: take after every tick
                    for _ in 0..rng.range(4, 40) {
                        s.tick();
                        s.take();
                        i += 2;
                    }
                }
                _ => s.tick(),
            }
        }
    }
}

/// whole cycles at exact small increments: the latch fires once per cycle however it is polled
fn drive_cycles(s: &mut Session, rng: &mut Rng, thorough: bool) {
    let w = s.w;
    let m = 1u64 << w;
    let fs = m as f32;
    for _ in 0..(if thorough { 60 } else { 12 }) {
        s.start(fs);
        // an increment that crosses the whole range in at most ~600 ticks
        let lo = (m / 600).max(1);
        let inc = lo + rng.below((m - lo).max(1));
        s.set_frequency(inc as f32);
        s.set_phase(pick_phase(rng, false));
        let n = if thorough { 2500 } else { 700 };
        let poll = 1 + rng.below(5);
        for k in 0..n {
            s.tick();
            if k % poll == 0 {
                s.take();
            }
        }
    }
}

pub fn record(module: &str, driver: &str, seed: u64, thorough: bool, out: &mut Out) -> Stats {
    let (w, i) = parse_module(module).unwrap_or_else(|| {
        eprintln!("unknown accumulator module {}", module);
        std::process::exit(2)
    });
    let mut rng = Rng::new(seed ^ ((w as u64) << 32) ^ ((i as u64) << 40) ^ 0x9acc);
    let mut s = Session::new(w, i, out);
    match driver {
        "ops" => drive_ops(&mut s, &mut rng, thorough),
        "cycles" => drive_cycles(&mut s, &mut rng, thorough),
        _ => {
            eprintln!("unknown accumulator driver {}", driver);
            std::process::exit(2)
        }
    }
    let mut st = Stats::new();
    for (k, v) in &s.stats.items {
        st.add(k, *v);
    }
    st
}

/// re-execute the calls of a recorded trace on the current build
pub fn rerun(lines: &[serde_json::Value], out: &mut Out) {
    let mut cur: Option<(u32, u32)> = None;
    let mut pending: Vec<&serde_json::Value> = Vec::new();
    // sessions borrow `out`, so group the events by run first
    let mut runs: Vec<((u32, u32), Vec<&serde_json::Value>)> = Vec::new();
    for v in lines {
        if v["op"] == "new" {
            if let Some(c) = cur {
                runs.push((c, std::mem::take(&mut pending)));
            }
            cur = Some((v["w"].as_u64().unwrap() as u32, v["i"].as_u64().unwrap() as u32));
        }
        if cur.is_some() {
            pending.push(v);
        }
    }
    if let Some(c) = cur {
        runs.push((c, pending));
    }
    for ((w, i), evs) in runs {
        let mut s = Session::new(w, i, out);
        for v in evs {
            let arg = || unkey(v["arg"].as_i64().unwrap());
            match v["op"].as_str().unwrap() {
                "new" => s.start(unkey(v["fs"].as_i64().unwrap())),
                "t" => s.tick(),
                "r" => s.reset(),
                "take" => s.take(),
                "sf" => s.set_frequency(arg()),
                "sper" => s.set_period(arg()),
                "sp" => s.set_phase(arg()),
                _ => {}
            }
        }
    }
}

// ---- graph replay ----------------------------------------------------------------------------
pub struct GraphTarget {
    w: u32,
    i: u32,
    out: Out,
    p: Option<Box<dyn Pa>>,
    /// set_phase was called since the latch was last taken or reset: whether it clears the latch is not
    /// specified, so the latch is not compared until then
    fog: bool,
}

impl GraphTarget {
    pub fn new(w: u32, i: u32) -> Self {
        GraphTarget { w, i, out: Out::memory(), p: None, fog: false }
    }
}

impl crate::graphrun::Target for GraphTarget {
    fn fresh(&mut self) {
        let fs = (1u64 << self.w) as f32;
        self.out = Out::memory();
        self.out.line(&format!("{{\"op\":\"new\",\"w\":{},\"i\":{},\"fs\":{}}}", self.w, self.i, key(fs)));
        self.p = make(self.w, self.i, fs);
        self.fog = false;
        if let Some(p) = self.p.as_mut() {
            p.set_frequency(0.0); // the increment before the first request is not specified
        }
    }
    fn apply(&mut self, op: &serde_json::Value, proj: &serde_json::Value) -> Vec<String> {
        let (w, i) = (self.w, self.i);
        let name = op["op"].as_str().unwrap().to_string();
        let mut tags = Vec::new();
        let r = {
            let p = self.p.as_mut().unwrap();
            guarded(|| {
                let mut extra = String::new();
                match name.as_str() {
                    "tick" => p.tick(),
                    "reset" => p.reset(),
                    "take" => {
                        let res = p.rolled_over();
                        extra = format!(",\"res\":{}", res);
                    }
                    "freq" => {
                        let f = op["i"].as_i64().unwrap() as f32;
                        p.set_frequency(f);
                        let (il, big) = measure_inc(p.as_ref());
                        extra = format!(",\"arg\":{},\"il\":{},\"big\":{}", key(f), il, big);
                    }
                    "phase" => {
                        // a phase that lands on counter value a whether the implementation scales by
                        // 2^w - 1 (as built) or by 2^w: the middle of [a / (2^w - 1), (a + 1) / 2^w)
                        let a = op["a"].as_i64().unwrap() as f64;
                        let m = (1u64 << w) as f64;
                        let ph = ((a / (m - 1.0) + (a + 1.0) / m) / 2.0) as f32;
                        p.set_phase(ph);
                        extra = format!(",\"arg\":{}", key(ph));
                    }
                    other => {
                        eprintln!("unknown accumulator graph op {}", other);
                        std::process::exit(2)
                    }
                }
                (extra, readout(p.as_ref(), w, i))
            })
        };
        match r {
            Err(m) => {
                self.out.line(&format!("{{\"op\":\"panic\",\"during\":{},\"msg\":{}}}", jstr(&name), jstr(&m)));
                tags.push("C17:panic".to_string());
                tags.push("C11:panic".to_string());
                return tags;
            }
            Ok((extra, rd)) => {
                let tr = match name.as_str() {
                    "tick" => "t",
                    "reset" => "r",
                    "take" => "take",
                    "freq" => "sf",
                    _ => "sp",
                };
                self.out.line(&format!("{{\"op\":\"{}\"{},{}}}", tr, extra, rd));
            }
        }
        let p = self.p.as_ref().unwrap();
        let a = p.acc() as i64;
        if a != proj[0].as_i64().unwrap() {
            tags.push(format!("C11:{}", match name.as_str() {
                "tick" => "tick-advance",
                "reset" => "reset",
                "take" => "take-disturbs-phase",
                "freq" => "setfreq-phase-jump",
                _ => "set-phase",
            }));
        }
        let cell = 1i64 << (w - i);
        let fq = (p.fraction() as f64 * cell as f64) as i64;
        if p.index() as i64 != proj[1].as_i64().unwrap() || fq != proj[2].as_i64().unwrap() {
            for c in ["C10", "C12", "C03"] {
                tags.push(format!("{}:index-fraction-split", c));
            }
        }
        if name == "take" {
            let was = op["was"].as_bool().unwrap();
            let said = self.out.mem.last().map(|l| l.contains("\"res\":true")).unwrap_or(false);
            if (!self.fog && was != said) || (self.fog && was && !said) {
                tags.push("C11:rollover-latch".to_string());
                tags.push("C02:rollover-latch".to_string());
            }
        }
        match name.as_str() {
            "phase" => self.fog = true,
            "take" | "reset" => self.fog = false,
            _ => {}
        }
        // the latch, peeked on a copy
        let mut c = p.copy();
        let latch = c.rolled_over();
        let want = proj[3].as_bool().unwrap();
        if (!self.fog && latch != want) || (self.fog && want && !latch) {
            tags.push("C11:rollover-latch".to_string());
            tags.push("C02:rollover-latch".to_string());
        }
        // the increment in force
        if name == "freq" {
            let (il, big) = measure_inc(p.as_ref());
            let want = op["i"].as_i64().unwrap();
            let m = 1i64 << w;
            if il != want % m || big != (want >= m) {
                tags.push("C11:increment".to_string());
            }
        }
        if (p.ramp() as f64 * (1u64 << w) as f64) != a as f64 {
            tags.push("C10:ramp".to_string());
        }
        tags
    }
    fn trace(&self) -> Vec<String> {
        self.out.mem.clone()
    }
}
