//! Exact rational images of quantities derived from f32 inputs (u128 arithmetic on bit patterns).

/// finite f32 >= 0 as mant * 2^exp (mant < 2^24)
fn decompose(v: f32) -> (u128, i32) {
    let b = v.to_bits();
    let e = ((b >> 23) & 0xff) as i32;
    let m = (b & 0x7f_ffff) as u128;
    if e == 0 {
        (m, -149)
    } else {
        (m | 0x80_0000, e - 150)
    }
}

/// floor( 2^shift * prod(nums) / prod(dens) ) for finite non-negative f32 values; None if a
/// denominator is zero or the result does not fit 120 bits
pub fn ratio_floor(nums: &[f32], dens: &[f32], shift: i32) -> Option<u128> {
    let mut nm: u128 = 1;
    let mut ne: i32 = shift;
    for &v in nums {
        let (m, e) = decompose(v);
        nm = nm.checked_mul(m)?;
        ne += e;
    }
    let mut dm: u128 = 1;
    let mut de: i32 = 0;
    for &v in dens {
        let (m, e) = decompose(v);
        if m == 0 {
            return None;
        }
        dm = dm.checked_mul(m)?;
        de += e;
    }
    if nm == 0 {
        return Some(0);
    }
    let e = ne - de;
    if e >= 0 {
        if e > 120 || (nm.leading_zeros() as i32) <= e {
            return None;
        }
        Some((nm << e) / dm)
    } else {
        let s = -e;
        if s > 120 || (dm.leading_zeros() as i32) <= s {
            return Some(0);
        }
        Some(nm / (dm << s))
    }
}

/// (floor, 16 fractional bits) of prod(nums)/prod(dens) * 2^k; None if it does not fit an i32
pub fn ratio_fix16(nums: &[f32], dens: &[f32], k: i32) -> Option<(i64, i64)> {
    let x = ratio_floor(nums, dens, k + 16)?;
    let fl = x >> 16;
    if fl >= (1u128 << 31) - 2 {
        return None;
    }
    Some((fl as i64, (x & 0xffff) as i64))
}
