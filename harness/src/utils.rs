//! The numeric helpers of src/utils.rs (through the verif-hooks re-export): trace recording.
use crate::util::*;
use synth_utils::verif_hooks::{fabs, ilog_2, is_almost, linear_interp};

const KEY_INF: i64 = 0x7f80_0000;

#[derive(Clone, Copy, PartialEq)]
enum Kind {
    Id,
    Neg,
    Other,
}

fn classify(k: i64, r: f32) -> Kind {
    let rk = key(r);
    // the sign of a zero result matters to nobody; every other result is compared bit for bit
    if rk == k && (k == 0 || r.to_bits() == unkey(k).to_bits()) {
        Kind::Id
    } else if rk == -k {
        Kind::Neg
    } else {
        Kind::Other
    }
}

fn sweep_range(lo: i64, hi: i64) -> Vec<(i64, i64, Kind)> {
    let mut runs: Vec<(i64, i64, Kind)> = Vec::new();
    for k in lo..=hi {
        let mut kind = classify(k, fabs(unkey(k)));
        if k == 0 && fabs(-0.0f32) != 0.0 {
            kind = Kind::Other;
        }
        match runs.last_mut() {
            Some(r) if r.2 == kind && kind != Kind::Other && r.1 + 1 == k => r.1 = k,
            _ => runs.push((k, k, kind)),
        }
    }
    runs
}

fn drive_fabs(out: &mut Out, stats: &mut Stats) {
    out.line("{\"op\":\"begin\",\"what\":\"fabs\"}");
    let total = 2 * KEY_INF + 1;
    let nchunks = 16i64;
    let chunk = (total + nchunks - 1) / nchunks;
    let mut handles = Vec::new();
    for c in 0..nchunks {
        let lo = -KEY_INF + c * chunk;
        let hi = (lo + chunk - 1).min(KEY_INF);
        handles.push(std::thread::spawn(move || sweep_range(lo, hi)));
    }
    let mut runs: Vec<(i64, i64, Kind)> = Vec::new();
    for h in handles {
        match h.join() {
            Ok(rs) => {
                for r in rs {
                    match runs.last_mut() {
                        Some(p) if p.2 == r.2 && r.2 != Kind::Other && p.1 + 1 == r.0 => p.1 = r.1,
                        _ => runs.push(r),
                    }
                }
            }
            Err(_) => {
                out.line("{\"op\":\"panic\",\"during\":\"fabs sweep\",\"msg\":\"fabs panicked\"}");
                return;
            }
        }
    }
    for r in runs.iter().take(10_000) {
        let kind = match r.2 {
            Kind::Id => "id",
            Kind::Neg => "neg",
            Kind::Other => "other",
        };
        out.line(&format!("{{\"op\":\"run\",\"lo\":{},\"hi\":{},\"kind\":\"{}\"}}", r.0, r.1, kind));
    }
    stats.add("key_runs", runs.len() as i64);
    let mut bad = 0u64;
    let mut count = 0u64;
    for sign in [0u32, 0x8000_0000] {
        for m in 1..0x0080_0000u32 {
            count += 1;
            if !fabs(f32::from_bits(sign | 0x7f80_0000 | m)).is_nan() {
                bad += 1;
            }
        }
    }
    out.line(&format!("{{\"op\":\"nan\",\"count\":{},\"bad\":{}}}", count, bad));
    out.line("{\"op\":\"end\"}");
    stats.add("bit_patterns", (total + count as i64 + 1) as i64);
}

fn drive_ilog(out: &mut Out, stats: &mut Stats, rng: &mut Rng, thorough: bool) {
    let mut n = 0;
    let one = |out: &mut Out, x: usize| match guarded(|| ilog_2(x)) {
        Ok(r) => out.line(&format!("{{\"op\":\"ilog\",\"x\":{},\"res\":{}}}", x, r)),
        Err(m) => out.line(&format!("{{\"op\":\"panic\",\"during\":\"ilog_2\",\"msg\":{}}}", jstr(&m))),
    };
    for x in 1..(if thorough { 70000usize } else { 5000 }) {
        one(out, x);
        n += 1;
    }
    for _ in 0..(if thorough { 20000 } else { 2000 }) {
        one(out, rng.below(1 << 31) as usize);
        n += 1;
    }
    for k in 0..64u32 {
        for off in [-1i64, 0, 1] {
            let x = (1u128 << k) as i128 + off as i128;
            if x < 1 || x > usize::MAX as i128 {
                continue; // ilog_2 is only ever applied to table lengths (>= 1)
            }
            match guarded(|| ilog_2(x as usize)) {
                Ok(r) => out.line(&format!("{{\"op\":\"ilogp\",\"k\":{},\"off\":{},\"res\":{}}}", k, off, r)),
                Err(m) => out.line(&format!("{{\"op\":\"panic\",\"during\":\"ilog_2\",\"msg\":{}}}", jstr(&m))),
            }
            n += 1;
        }
    }
    stats.add("ilog_calls", n);
}

fn next_up(v: f32) -> f32 {
    if v.is_nan() || v == f32::INFINITY {
        return v;
    }
    unkey(key(v) + 1)
}

fn drive_almost(out: &mut Out, stats: &mut Stats, rng: &mut Rng, thorough: bool) {
    let n = if thorough { 200000 } else { 20000 };
    let special = [0.0f32, -0.0, 1.0, -1.0, f32::MAX, f32::MIN, f32::INFINITY, f32::NEG_INFINITY, f32::NAN, f32::MIN_POSITIVE, 1e-45];
    for _ in 0..n {
        let pickv = |rng: &mut Rng| -> f32 {
            match rng.below(6) {
                0 => *rng.pick(&special),
                1 => (rng.unit() * 20.0 - 10.0) as f32,
                2 => unkey(rng.range(-KEY_INF, KEY_INF)),
                _ => (rng.unit() * 10.0) as f32,
            }
        };
        let v1 = pickv(rng);
        let eps = match rng.below(5) {
            0 => *rng.pick(&special),
            1 => 0.05,
            2 => rng.log_uniform(1e-9, 10.0) as f32,
            3 => 0.0,
            _ => (rng.unit() * 0.2) as f32,
        };
        // half of the pairs sit within a few floats of the boundary |v1 - v2| = eps
        let v2 = if rng.chance(1, 2) && v1.is_finite() && eps.is_finite() {
            let base = if rng.chance(1, 2) { v1 + eps } else { v1 - eps };
            if base.is_finite() { unkey((key(base) + rng.range(-3, 3)).clamp(-KEY_INF, KEY_INF)) } else { pickv(rng) }
        } else {
            pickv(rng)
        };
        let cls = if v1.is_nan() || v2.is_nan() || eps.is_nan() {
            "nan"
        } else if v1.is_infinite() || v2.is_infinite() {
            "edge"
        } else {
            let d = (v1 as f64 - v2 as f64).abs();
            let e0 = eps as f64;
            let e1 = next_up(eps) as f64;
            let close = |a: f64, b: f64| (a - b).abs() <= 1e-9 * a.abs().max(b.abs());
            if close(d, e0) && d != e0 || close(d, e1) {
                "edge"
            } else if d <= e0 {
                "within"
            } else if d > e1 {
                "beyond"
            } else {
                "edge"
            }
        };
        match guarded(|| is_almost(v1, v2, eps)) {
            Ok(r) => out.line(&format!(
                "{{\"op\":\"almost\",\"v1\":{},\"v2\":{},\"eps\":{},\"cls\":\"{}\",\"res\":{}}}",
                key(v1), key(v2), key(eps), cls, r
            )),
            Err(m) => out.line(&format!("{{\"op\":\"panic\",\"during\":\"is_almost\",\"msg\":{}}}", jstr(&m))),
        }
    }
    stats.add("is_almost_calls", n);
}

fn drive_lerp(out: &mut Out, stats: &mut Stats, rng: &mut Rng, thorough: bool) {
    let series = if thorough { 4000 } else { 500 };
    let mut n = 0;
    for _ in 0..series {
        let pickv = |rng: &mut Rng| -> f32 {
            match rng.below(5) {
                0 => *rng.pick(&[0.0f32, 1.0, -1.0, 0.5, -0.0]),
                1 => (rng.unit() * 2.0 - 1.0) as f32,
                2 => rng.log_uniform(1e-12, 1.9) as f32 * if rng.chance(1, 2) { -1.0 } else { 1.0 },
                // neighbouring table entries: a small difference of large values
                3 => 0.99 + (rng.unit() * 0.01) as f32,
                _ => (rng.unit() * 1.9) as f32,
            }
        };
        let y0 = pickv(rng);
        let y1 = if rng.chance(1, 3) { unkey((key(y0) + rng.range(-4, 4)).clamp(-0x3ff0_0000, 0x3ff0_0000)) } else { pickv(rng) };
        // ascending fractions in [0, 1]: the multiples of 2^-k the accumulator produces, plus 0 and 1
        let k = rng.range(1, 14) as i32;
        let steps = (1u32 << k).min(48);
        let mut fr: Vec<f32> = (0..=steps).map(|i| ((i as u64 * (1u64 << k) / steps as u64) as f32) / (1u64 << k) as f32).collect();
        fr.push(0.99999994);
        fr.push(5.9604645e-8);
        fr.sort_by(|a, b| a.partial_cmp(b).unwrap());
        let mut first = true;
        for f in fr {
            match guarded(|| linear_interp(y0, y1, f)) {
                Ok(r) => out.line(&format!(
                    "{{\"op\":\"lerp\",\"y0\":{},\"y1\":{},\"f\":{},\"res\":{},\"q0\":{},\"q1\":{},\"qr\":{},\"first\":{}}}",
                    key(y0), key(y1), key(f), key(r), q24(y0), q24(y1), q24(r), first
                )),
                Err(m) => out.line(&format!("{{\"op\":\"panic\",\"during\":\"linear_interp\",\"msg\":{}}}", jstr(&m))),
            }
            first = false;
            n += 1;
        }
    }
    stats.add("linear_interp_calls", n);
}

pub fn record(driver: &str, seed: u64, thorough: bool, out: &mut Out) -> Stats {
    let mut stats = Stats::new();
    let mut rng = Rng::new(seed ^ 0x7574_696c);
    out.line("{\"op\":\"new\"}");
    match driver {
        "fabs" => drive_fabs(out, &mut stats),
        "ilog" => drive_ilog(out, &mut stats, &mut rng, thorough),
        "almost" => drive_almost(out, &mut stats, &mut rng, thorough),
        "lerp" => drive_lerp(out, &mut stats, &mut rng, thorough),
        _ => {
            eprintln!("unknown utils driver {}", driver);
            std::process::exit(2)
        }
    }
    stats
}

/// re-execute a recorded trace (the calls carry their arguments)
pub fn rerun(lines: &[serde_json::Value], out: &mut Out) {
    out.line("{\"op\":\"new\"}");
    let mut stats = Stats::new();
    let mut did_fabs = false;
    for v in lines {
        match v["op"].as_str().unwrap_or("") {
            "begin" | "run" | "nan" | "end" => {
                if !did_fabs {
                    drive_fabs(out, &mut stats);
                    did_fabs = true;
                }
            }
            "ilog" => {
                let x = v["x"].as_u64().unwrap() as usize;
                match guarded(|| ilog_2(x)) {
                    Ok(r) => out.line(&format!("{{\"op\":\"ilog\",\"x\":{},\"res\":{}}}", x, r)),
                    Err(m) => out.line(&format!("{{\"op\":\"panic\",\"during\":\"ilog_2\",\"msg\":{}}}", jstr(&m))),
                }
            }
            "ilogp" => {
                let k = v["k"].as_u64().unwrap() as u32;
                let off = v["off"].as_i64().unwrap();
                let x = ((1u128 << k) as i128 + off as i128) as usize;
                match guarded(|| ilog_2(x)) {
                    Ok(r) => out.line(&format!("{{\"op\":\"ilogp\",\"k\":{},\"off\":{},\"res\":{}}}", k, off, r)),
                    Err(m) => out.line(&format!("{{\"op\":\"panic\",\"during\":\"ilog_2\",\"msg\":{}}}", jstr(&m))),
                }
            }
            "almost" => {
                let (v1, v2, eps) = (unkey(v["v1"].as_i64().unwrap()), unkey(v["v2"].as_i64().unwrap()), unkey(v["eps"].as_i64().unwrap()));
                if v["cls"] == "nan" {
                    continue; // NaN arguments are not recoverable from keys
                }
                match guarded(|| is_almost(v1, v2, eps)) {
                    Ok(r) => out.line(&format!(
                        "{{\"op\":\"almost\",\"v1\":{},\"v2\":{},\"eps\":{},\"cls\":{},\"res\":{}}}",
                        key(v1), key(v2), key(eps), v["cls"], r
                    )),
                    Err(m) => out.line(&format!("{{\"op\":\"panic\",\"during\":\"is_almost\",\"msg\":{}}}", jstr(&m))),
                }
            }
            "lerp" => {
                let (y0, y1, f) = (unkey(v["y0"].as_i64().unwrap()), unkey(v["y1"].as_i64().unwrap()), unkey(v["f"].as_i64().unwrap()));
                match guarded(|| linear_interp(y0, y1, f)) {
                    Ok(r) => out.line(&format!(
                        "{{\"op\":\"lerp\",\"y0\":{},\"y1\":{},\"f\":{},\"res\":{},\"q0\":{},\"q1\":{},\"qr\":{},\"first\":{}}}",
                        key(y0), key(y1), key(f), key(r), q24(y0), q24(y1), q24(r), v["first"]
                    )),
                    Err(m) => out.line(&format!("{{\"op\":\"panic\",\"during\":\"linear_interp\",\"msg\":{}}}", jstr(&m))),
                }
            }
            _ => {}
        }
    }
}
