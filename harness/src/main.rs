//! verif-harness: drives the real synth-utils objects and records ndjson traces for TLC,
//! re-executes recorded traces (violation replay) and replays TLC state graphs on the real code.
//!
//! usage:
//!   verif-harness record <module> <driver> <seed> <quick|thorough> <out.ndjson>
//!   verif-harness rerun  <module> <in.ndjson> <out.ndjson>
//!   verif-harness graph  <module> <graph.json> <seed> <quick|thorough>
#[cfg(feature = "core-hooks")]
mod adsr;
mod exact;
mod glide;
mod graphrun;
mod lfo;
mod midi;
#[cfg(feature = "aux-hooks")]
mod pacc;
mod params;
mod quant;
mod ribbon;
mod util;
#[cfg(feature = "aux-hooks")]
mod utils;
#[cfg(feature = "core-hooks")]
mod voice;

use util::*;

fn usage() -> ! {
    eprintln!("usage: verif-harness record <module> <driver> <seed> <quick|thorough> <out> | rerun <module> <in> <out> | graph <module> <file>");
    std::process::exit(2)
}

fn read_ndjson(path: &str) -> Vec<serde_json::Value> {
    let text = std::fs::read_to_string(path).unwrap_or_else(|e| {
        eprintln!("cannot read {}: {}", path, e);
        std::process::exit(2)
    });
    text.lines()
        .filter(|l| !l.trim().is_empty())
        .map(|l| serde_json::from_str(l).unwrap_or_else(|e| {
            eprintln!("bad json line in {}: {}", path, e);
            std::process::exit(2)
        }))
        .collect()
}

fn main() {
    let args: Vec<String> = std::env::args().collect();
    if args.len() < 2 {
        usage();
    }
    silence_panics();
    match args[1].as_str() {
        "record" => {
            if args.len() != 7 {
                usage();
            }
            let (module, driver) = (args[2].as_str(), args[3].as_str());
            let seed: u64 = args[4].parse().unwrap_or_else(|_| usage());
            let thorough = args[5] == "thorough";
            let mut out = Out::create(&args[6]);
            let stats = match module {
                "midi" => midi::record(driver, seed, thorough, &mut out),
                "lfo" => lfo::record(driver, seed, thorough, &mut out),
                #[cfg(feature = "core-hooks")]
                "adsr" => adsr::record(driver, seed, thorough, &mut out),
                "quant" => quant::record(driver, seed, thorough, &mut out),
                "ribbon" => ribbon::record(driver, seed, thorough, &mut out),
                "glide" => glide::record(driver, seed, thorough, &mut out),
                "params" => params::record(driver, seed, thorough, &mut out),
                #[cfg(feature = "core-hooks")]
                "voice" => voice::record(driver, seed, thorough, &mut out),
                #[cfg(feature = "aux-hooks")]
                "utils" => utils::record(driver, seed, thorough, &mut out),
                #[cfg(feature = "aux-hooks")]
                m if m.starts_with("pacc") => pacc::record(m, driver, seed, thorough, &mut out),
                _ => usage(),
            };
            let n = out.finish();
            let mut stats = stats;
            stats.add("events", n as i64);
            stats.print();
        }
        "rerun" => {
            if args.len() != 5 {
                usage();
            }
            let lines = read_ndjson(&args[3]);
            let mut out = Out::create(&args[4]);
            match args[2].as_str() {
                "midi" => midi::rerun(&lines, &mut out),
                "lfo" => lfo::rerun(&lines, &mut out),
                #[cfg(feature = "core-hooks")]
                "adsr" => adsr::rerun(&lines, &mut out),
                "quant" => quant::rerun(&lines, &mut out),
                "ribbon" => ribbon::rerun(&lines, &mut out),
                "glide" => glide::rerun(&lines, &mut out),
                "params" => params::rerun(&lines, &mut out),
                #[cfg(feature = "core-hooks")]
                "voice" => voice::rerun(&lines, &mut out),
                #[cfg(feature = "aux-hooks")]
                "utils" => utils::rerun(&lines, &mut out),
                #[cfg(feature = "aux-hooks")]
                m if m.starts_with("pacc") => pacc::rerun(&lines, &mut out),
                _ => usage(),
            }
            out.finish();
        }
        "graph" => {
            if args.len() != 6 {
                usage();
            }
            let g = graphrun::load(&args[3]);
            let seed: u64 = args[4].parse().unwrap_or_else(|_| usage());
            let thorough = args[5] == "thorough";
            let rc = match args[2].as_str() {
                "midi" => graphrun::run(&g, &mut midi::GraphTarget::new(3), seed, thorough),
                #[cfg(feature = "core-hooks")]
                "adsr" => graphrun::run(&g, &mut adsr::GraphTarget::new(&g.init_proj), seed, thorough),
                "lfo" => graphrun::run(&g, &mut lfo::GraphTarget::new(), seed, thorough),
                "quant" => graphrun::run(&g, &mut quant::GraphTarget::new(), seed, thorough),
                "glide" => graphrun::run(&g, &mut glide::GraphTarget::new(), seed, thorough),
                "ribbon100" => graphrun::run(&g, &mut ribbon::GraphTarget::new(100), seed, thorough),
                "ribbon500" => graphrun::run(&g, &mut ribbon::GraphTarget::new(500), seed, thorough),
                #[cfg(feature = "aux-hooks")]
                m if m.starts_with("pacc") => {
                    let (w, i) = pacc::parse_module(m).unwrap_or_else(|| usage());
                    graphrun::run(&g, &mut pacc::GraphTarget::new(w, i), seed, thorough)
                }
                _ => usage(),
            };
            std::process::exit(rc);
        }
        _ => usage(),
    }
}
