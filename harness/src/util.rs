//! Shared helpers: deterministic RNG, exact integer images of f32 values, ndjson output.
use std::fs::File;
use std::io::{BufWriter, Write};

/// xoshiro256** seeded through splitmix64 (no external crates, reproducible from VERIF_SEED)
pub struct Rng {
    s: [u64; 4],
}

impl Rng {
    pub fn new(seed: u64) -> Self {
        let mut z = seed.wrapping_add(0x9E37_79B9_7F4A_7C15);
        let mut s = [0u64; 4];
        for x in s.iter_mut() {
            z = z.wrapping_add(0x9E37_79B9_7F4A_7C15);
            let mut y = z;
            y = (y ^ (y >> 30)).wrapping_mul(0xBF58_476D_1CE4_E5B9);
            y = (y ^ (y >> 27)).wrapping_mul(0x94D0_49BB_1331_11EB);
            *x = y ^ (y >> 31);
        }
        Rng { s }
    }
    pub fn next_u64(&mut self) -> u64 {
        let r = self.s[1].wrapping_mul(5).rotate_left(7).wrapping_mul(9);
        let t = self.s[1] << 17;
        self.s[2] ^= self.s[0];
        self.s[3] ^= self.s[1];
        self.s[1] ^= self.s[2];
        self.s[0] ^= self.s[3];
        self.s[2] ^= t;
        self.s[3] = self.s[3].rotate_left(45);
        r
    }
    /// uniform in 0..n (0 for n = 0: sizes derived from the code under test may collapse)
    pub fn below(&mut self, n: u64) -> u64 {
        if n == 0 {
            return 0;
        }
        self.next_u64() % n
    }
    pub fn range(&mut self, lo: i64, hi: i64) -> i64 {
        lo + self.below((hi - lo + 1) as u64) as i64
    }
    pub fn chance(&mut self, num: u64, den: u64) -> bool {
        self.below(den) < num
    }
    /// uniform in [0,1)
    pub fn unit(&mut self) -> f64 {
        (self.next_u64() >> 11) as f64 / (1u64 << 53) as f64
    }
    pub fn pick<'a, T>(&mut self, v: &'a [T]) -> &'a T {
        &v[self.below(v.len() as u64) as usize]
    }
    /// log-uniform in [lo, hi]
    pub fn log_uniform(&mut self, lo: f64, hi: f64) -> f64 {
        (lo.ln() + self.unit() * (hi.ln() - lo.ln())).exp()
    }
    pub fn shuffle<T>(&mut self, v: &mut [T]) {
        for i in (1..v.len()).rev() {
            let j = self.below(i as u64 + 1) as usize;
            v.swap(i, j);
        }
    }
}

/// how NaN is logged (outside the range of order keys)
pub const NAN_KEY: i64 = 2147483647;

/// Order key of an f32: strictly monotone map of the non-NaN floats into the 32-bit integers,
/// K(-0) = K(+0) = 0.
pub fn key(v: f32) -> i64 {
    if v.is_nan() {
        return NAN_KEY;
    }
    let b = v.to_bits();
    if b & 0x8000_0000 == 0 {
        b as i64
    } else {
        -((b & 0x7fff_ffff) as i64)
    }
}

/// inverse of `key` for non-NaN keys
pub fn unkey(k: i64) -> f32 {
    if k >= 0 {
        f32::from_bits(k as u32)
    } else {
        f32::from_bits(((-k) as u32) | 0x8000_0000)
    }
}

/// Q24 fixed-point image round(v * 2^24), saturated to +-2^29 (|v| <= 32, so that the difference of
/// two images always fits 32 bits); NaN -> NAN_KEY
pub fn q24(v: f32) -> i64 {
    if v.is_nan() {
        return NAN_KEY;
    }
    let x = (v as f64) * 16777216.0;
    let lim = (1u64 << 29) as f64;
    if x >= lim {
        1 << 29
    } else if x <= -lim {
        -(1 << 29)
    } else {
        x.round() as i64
    }
}

pub struct Out {
    w: Option<BufWriter<File>>,
    pub mem: Vec<String>,
    pub lines: u64,
    cap: Option<Vec<String>>,
}

impl Out {
    pub fn create(path: &str) -> Self {
        let f = File::create(path).unwrap_or_else(|e| {
            eprintln!("cannot create {}: {}", path, e);
            std::process::exit(2)
        });
        Out { w: Some(BufWriter::with_capacity(1 << 20, f)), mem: Vec::new(), lines: 0, cap: None }
    }
    /// in-memory sink (graph replay keeps the events of the current path for the mismatch report)
    pub fn memory() -> Self {
        Out { w: None, mem: Vec::new(), lines: 0, cap: None }
    }
    /// hold back the following events (run-length compression of repeated call patterns)
    pub fn begin_capture(&mut self) {
        self.cap = Some(Vec::new());
    }
    pub fn end_capture(&mut self) -> Vec<String> {
        self.cap.take().unwrap_or_default()
    }
    pub fn emit_all(&mut self, v: &[String]) {
        for l in v {
            self.line(l);
        }
    }
    pub fn line(&mut self, s: &str) {
        if let Some(c) = self.cap.as_mut() {
            c.push(s.to_string());
            return;
        }
        match self.w.as_mut() {
            Some(w) => {
                w.write_all(s.as_bytes()).unwrap();
                w.write_all(b"\n").unwrap();
            }
            None => self.mem.push(s.to_string()),
        }
        self.lines += 1;
    }
    pub fn finish(mut self) -> u64 {
        if let Some(w) = self.w.as_mut() {
            w.flush().unwrap();
        }
        self.lines
    }
}

pub fn jstr(s: &str) -> String {
    let mut o = String::with_capacity(s.len() + 2);
    o.push('"');
    for c in s.chars() {
        match c {
            '"' => o.push_str("\\\""),
            '\\' => o.push_str("\\\\"),
            '\n' => o.push_str("\\n"),
            c if (c as u32) < 0x20 => o.push(' '),
            c => o.push(c),
        }
    }
    o.push('"');
    o
}

thread_local! {
    static GUARD_DEPTH: std::cell::Cell<u32> = std::cell::Cell::new(0);
}

/// run a closure, turning a panic into Err(message)
pub fn guarded<T>(f: impl FnOnce() -> T) -> Result<T, String> {
    GUARD_DEPTH.with(|d| d.set(d.get() + 1));
    let r = std::panic::catch_unwind(std::panic::AssertUnwindSafe(f));
    GUARD_DEPTH.with(|d| d.set(d.get() - 1));
    match r {
        Ok(v) => Ok(v),
        Err(p) => {
            let msg = if let Some(s) = p.downcast_ref::<&str>() {
                s.to_string()
            } else if let Some(s) = p.downcast_ref::<String>() {
                s.clone()
            } else {
                "panic".to_string()
            };
            Err(msg)
        }
    }
}

/// panics of the code under test (inside `guarded`) are data and stay silent; a panic of the harness
/// itself is a tool error and is reported
pub fn silence_panics() {
    std::panic::set_hook(Box::new(|info| {
        if GUARD_DEPTH.with(|d| d.get()) == 0 {
            eprintln!("harness panic: {}", info);
        }
    }));
}

/// statistics a driver reports on stdout as one JSON line (picked up by bin/check for evidence)
pub struct Stats {
    pub items: Vec<(String, i64)>,
}

impl Stats {
    pub fn new() -> Self {
        Stats { items: Vec::new() }
    }
    pub fn add(&mut self, k: &str, v: i64) {
        for it in self.items.iter_mut() {
            if it.0 == k {
                it.1 += v;
                return;
            }
        }
        self.items.push((k.to_string(), v));
    }
    pub fn print(&self) {
        let body: Vec<String> = self.items.iter().map(|(k, v)| format!("{}:{}", jstr(k), v)).collect();
        println!("STATS {{{}}}", body.join(","));
    }
}
