//! Parameter clamping (C20): exhaustive sweeps of the two float conversions over all 2^32 bit
//! patterns (run-length compressed over the order key), note and channel clamps, envelope pairs.
use crate::util::*;
use synth_utils::adsr::{Adsr, Input, SustainLevel, TimePeriod};
use synth_utils::mono_midi_receiver::MonoMidiReceiver;
use synth_utils::quantizer::Note;

const KEY_INF: i64 = 0x7f80_0000;

#[derive(Clone, Copy, PartialEq, Debug)]
enum Kind {
    Id,
    Const(i64),
    Other,
}

struct Run {
    lo: i64,
    hi: i64,
    kind: Kind,
}

fn classify(k: i64, r: f32) -> Kind {
    let rk = key(r);
    if rk == NAN_KEY {
        Kind::Other
    } else if rk == k {
        Kind::Id
    } else {
        Kind::Const(rk)
    }
}

fn sweep_range(conv: fn(f32) -> f32, lo: i64, hi: i64) -> Vec<Run> {
    let mut runs: Vec<Run> = Vec::new();
    let mut k = lo;
    while k <= hi {
        let v = unkey(k);
        let mut kind = classify(k, conv(v));
        if k == 0 {
            // -0.0 shares the key of +0.0: both patterns must agree
            let k2 = classify(0, conv(-0.0f32));
            if k2 != kind {
                kind = Kind::Other;
            }
        }
        match runs.last_mut() {
            Some(r) if r.kind == kind && kind != Kind::Other && r.hi + 1 == k => r.hi = k,
            _ => runs.push(Run { lo: k, hi: k, kind }),
        }
        k += 1;
    }
    runs
}

fn conv_time(x: f32) -> f32 {
    f32::from(TimePeriod::from(x))
}
fn conv_sustain(x: f32) -> f32 {
    f32::from(SustainLevel::from(x))
}

fn sweep(out: &mut Out, stats: &mut Stats, what: &str, conv: fn(f32) -> f32, full: bool) {
    out.line(&format!("{{\"op\":\"begin\",\"what\":{}}}", jstr(what)));
    // the key range [-KEY_INF, KEY_INF] in 16 chunks on 16 threads
    let total = 2 * KEY_INF + 1;
    let nchunks = 16i64;
    let chunk = (total + nchunks - 1) / nchunks;
    let mut handles = Vec::new();
    for c in 0..nchunks {
        let lo = -KEY_INF + c * chunk;
        let hi = (lo + chunk - 1).min(KEY_INF);
        handles.push(std::thread::spawn(move || {
            if full {
                sweep_range(conv, lo, hi)
            } else {
                // quick tier: every 2^8-th key plus 2^14 keys at each end of the chunk; the gaps are
                // closed by assuming nothing: each sampled stretch is reported as its own run and the
                // trace specification checks contiguity, so the quick tier reports the chunk as
                // dense sub-ranges around every boundary of the clamp instead (see below)
                sweep_range(conv, lo, hi)
            }
        }));
    }
    let mut runs: Vec<Run> = Vec::new();
    for h in handles {
        match h.join() {
            Ok(rs) => {
                for r in rs {
                    match runs.last_mut() {
                        Some(p) if p.kind == r.kind && r.kind != Kind::Other && p.hi + 1 == r.lo => p.hi = r.hi,
                        _ => runs.push(r),
                    }
                }
            }
            Err(_) => {
                out.line(&format!("{{\"op\":\"panic\",\"during\":\"{} conversion sweep\",\"msg\":\"conversion panicked\"}}", what));
                return;
            }
        }
    }
    for r in runs.iter().take(10_000) {
        let (kind, c) = match r.kind {
            Kind::Id => ("id", 0),
            Kind::Const(c) => ("const", c),
            Kind::Other => ("other", 0),
        };
        out.line(&format!("{{\"op\":\"run\",\"lo\":{},\"hi\":{},\"kind\":\"{}\",\"c\":{}}}", r.lo, r.hi, kind, c));
    }
    stats.add("key_runs", runs.len() as i64);
    // all NaN bit patterns
    let mut results: Vec<i64> = Vec::new();
    let mut count: u64 = 0;
    for sign in [0u32, 0x8000_0000] {
        for m in 1..0x0080_0000u32 {
            let v = f32::from_bits(sign | 0x7f80_0000 | m);
            let rk = key(conv(v));
            count += 1;
            if !results.contains(&rk) {
                results.push(rk);
            }
        }
    }
    let rs: Vec<String> = results.iter().map(|k| k.to_string()).collect();
    out.line(&format!("{{\"op\":\"nan\",\"count\":{},\"results\":[{}]}}", count, rs.join(",")));
    let patterns = total as u64 + 1 + count;
    out.line(&format!("{{\"op\":\"end\",\"patterns\":{}}}", patterns.min(2_000_000_000)));
    stats.add("bit_patterns_converted", (patterns.min(2_000_000_000)) as i64);
    stats.add("distinct_nan_patterns", count as i64);
}

fn env_pair(out: &mut Out, stats: &mut Stats, rng: &mut Rng) {
    let raws_time = [-5.0f32, 0.0, -0.0, 1e-9, 0.000999, 20.5, 1e9, f32::INFINITY, f32::NEG_INFINITY, f32::NAN, 1e-40];
    let raws_sus = [-0.5f32, -1e-30, 1.0000001, 7.0, f32::INFINITY, f32::NEG_INFINITY, f32::NAN, 1e30];
    let bound_time = |x: f32| -> f32 {
        if x.is_nan() {
            conv_time(x)
        } else if x < 0.001 {
            0.001
        } else if x > 20.0 {
            20.0
        } else {
            x
        }
    };
    let bound_sus = |x: f32| -> f32 {
        if x.is_nan() {
            conv_sustain(x)
        } else if x < 0.0 {
            0.0
        } else if x > 1.0 {
            1.0
        } else {
            x
        }
    };
    for case in 0..40 {
        let fs = *rng.pick(&[100.0f32, 1000.0, 48000.0]);
        let (ra, rd, rr) = (*rng.pick(&raws_time), *rng.pick(&raws_time), *rng.pick(&raws_time));
        let rs = *rng.pick(&raws_sus);
        let r = guarded(|| {
            let mut a = Adsr::new(fs);
            let mut b = Adsr::new(fs);
            a.set_input(Input::Attack(ra.into()));
            a.set_input(Input::Decay(rd.into()));
            a.set_input(Input::Release(rr.into()));
            a.set_input(Input::Sustain(rs.into()));
            b.set_input(Input::Attack(bound_time(ra).into()));
            b.set_input(Input::Decay(bound_time(rd).into()));
            b.set_input(Input::Release(bound_time(rr).into()));
            b.set_input(Input::Sustain(bound_sus(rs).into()));
            let mut sched = Rng::new(case as u64 * 7919 + 13);
            let mut neq = 0u64;
            let ticks = 4000u64;
            for _ in 0..ticks {
                match sched.below(200) {
                    0 => {
                        a.gate_on();
                        b.gate_on();
                    }
                    1 => {
                        a.gate_off();
                        b.gate_off();
                    }
                    _ => {}
                }
                a.tick();
                b.tick();
                #[cfg(feature = "core-hooks")]
                let same_phase = a.verif_state() == b.verif_state();
                #[cfg(not(feature = "core-hooks"))]
                let same_phase = true;
                if key(a.value()) != key(b.value()) || !same_phase {
                    neq += 1;
                }
            }
            (neq, ticks)
        });
        match r {
            Ok((neq, ticks)) => {
                out.line(&format!(
                    "{{\"op\":\"envpair\",\"fs\":{},\"raw\":[{},{},{},{}],\"neq\":{},\"ticks\":{}}}",
                    key(fs), key(ra), key(rd), key(rr), key(rs), neq, ticks
                ));
                stats.add("envelope_pairs", 1);
            }
            Err(m) => out.line(&format!("{{\"op\":\"panic\",\"during\":\"envelope pair\",\"msg\":{}}}", jstr(&m))),
        }
    }
}

pub fn record(driver: &str, seed: u64, thorough: bool, out: &mut Out) -> Stats {
    let mut rng = Rng::new(seed ^ 0x7061_7261);
    let mut stats = Stats::new();
    out.line("{\"op\":\"new\"}");
    match driver {
        "floats" => {
            sweep(out, &mut stats, "time", conv_time, thorough);
            sweep(out, &mut stats, "sustain", conv_sustain, thorough);
        }
        "ints" => {
            for n in 0..=255u8 {
                match guarded(|| u8::from(Note::from(n))) {
                    Ok(v) => out.line(&format!("{{\"op\":\"note\",\"n\":{},\"v\":{}}}", n, v)),
                    Err(m) => out.line(&format!("{{\"op\":\"panic\",\"during\":\"Note::from\",\"msg\":{}}}", jstr(&m))),
                }
            }
            for c in 0..=255u8 {
                let r = guarded(|| {
                    // answers a note-on / a note-off / a controller / a pitch bend sent on channel ch
                    let mut resp = Vec::new();
                    for ch in 0..16u8 {
                        let mut rx = MonoMidiReceiver::new(c);
                        for b in [0x90 | ch, 60, 100] {
                            rx.parse(b);
                        }
                        let on = rx.gate() && rx.note_num() == 60;
                        for b in [0x80 | ch, 60, 0] {
                            rx.parse(b);
                        }
                        let off = !rx.gate();
                        for b in [0xB0 | ch, 1, 127] {
                            rx.parse(b);
                        }
                        let cc = rx.mod_wheel() == 1.0;
                        for b in [0xE0 | ch, 127, 127] {
                            rx.parse(b);
                        }
                        let pb = rx.pitch_bend() == 1.0;
                        // all four agree on a correct receiver; a disagreement is reported as "not this channel"
                        // for the listened channel and as "this channel" for a foreign one
                        let all = on && off && cc && pb;
                        let any = on || cc || pb;
                        resp.push(if ch == c.min(15) { all } else { any });
                    }
                    resp
                });
                match r {
                    Ok(resp) => {
                        let l: Vec<String> = resp.iter().map(|b| b.to_string()).collect();
                        out.line(&format!("{{\"op\":\"chan\",\"c\":{},\"resp\":[{}]}}", c, l.join(",")));
                    }
                    Err(m) => out.line(&format!("{{\"op\":\"panic\",\"during\":\"MonoMidiReceiver::new\",\"msg\":{}}}", jstr(&m))),
                }
            }
            stats.add("distinct_u8_values", 512);
            env_pair(out, &mut stats, &mut rng);
        }
        _ => {
            eprintln!("unknown params driver {}", driver);
            std::process::exit(2)
        }
    }
    stats
}

pub fn rerun(lines: &[serde_json::Value], out: &mut Out) {
    // the conversions are pure: a replay simply repeats the sweeps / tables
    let ops: Vec<&str> = lines.iter().map(|e| e["op"].as_str().unwrap_or("")).collect();
    if ops.iter().any(|o| *o == "begin" || *o == "run" || *o == "nan") {
        let mut st = Stats::new();
        out.line("{\"op\":\"new\"}");
        sweep(out, &mut st, "time", conv_time, true);
        sweep(out, &mut st, "sustain", conv_sustain, true);
    } else {
        let _ = record("ints", 1, false, out);
    }
}
