//! Quantizer: trace recording drivers and trace re-execution.
use crate::util::*;
use std::collections::HashSet;
use synth_utils::quantizer::{Conversion, Note, Quantizer};

const SAT: f64 = 1.9e9;

fn units(v: f32) -> i64 {
    // v * 1.2e7 is exact in f64 (24-bit x 24-bit mantissas)
    let x = (v as f64) * 1.2e7;
    if x.is_nan() {
        0
    } else if x >= SAT {
        SAT as i64
    } else if x <= -SAT {
        -SAT as i64
    } else {
        x.floor() as i64
    }
}

fn ulp_of(x: f64) -> f64 {
    let a = x.abs().max(f32::MIN_POSITIVE as f64);
    if !a.is_finite() {
        return f64::INFINITY;
    }
    let e = a.log2().floor() as i32;
    // guard against log2 rounding at exact powers of two
    let e = if (2.0f64).powi(e) > a { e - 1 } else if (2.0f64).powi(e + 1) <= a { e + 1 } else { e };
    (2.0f64).powi(e - 23)
}

/// |f32(stair + frac) - target| in ulps of max(|target|, |stair|), rounded up, capped at 1000
fn err_ulps(c: &Conversion, target: f32) -> i64 {
    let sum = c.stairstep + c.fraction;
    if sum.is_nan() || target.is_nan() {
        return 1000;
    }
    if sum == target {
        return 0;
    }
    let err = ((sum as f64) - (target as f64)).abs();
    let scale = (target.abs() as f64).max(c.stairstep.abs() as f64);
    let r = (err / ulp_of(scale)).ceil();
    if r > 1000.0 || !r.is_finite() {
        1000
    } else {
        r as i64
    }
}

fn frac_units(c: &Conversion) -> i64 {
    let x = (c.fraction as f64) * 1.2e7;
    if x.is_nan() {
        SAT as i64
    } else {
        x.round().max(-SAT).min(SAT) as i64
    }
}

fn mask_of(q: &Quantizer) -> u32 {
    let mut m = 0;
    for k in 0..12u8 {
        if q.is_allowed(Note::from(k)) {
            m |= 1 << k;
        }
    }
    m
}

fn clampv(v: f32) -> f32 {
    if v.is_nan() {
        0.0
    } else {
        v.max(0.0).min(10.0)
    }
}

pub struct Session<'a> {
    q: Option<Quantizer>,
    out: &'a mut Out,
    pub stats: Stats,
    pub alive: bool,
}

impl<'a> Session<'a> {
    pub fn new(out: &'a mut Out) -> Self {
        Session { q: None, out, stats: Stats::new(), alive: false }
    }
    fn panic_event(&mut self, during: &str, msg: &str) {
        self.out.line(&format!("{{\"op\":\"panic\",\"where\":\"{}\",\"during\":{},\"msg\":{}}}", if during.contains("convert") { "convert" } else { "edit" }, jstr(during), jstr(msg)));
        self.stats.add("panics", 1);
        self.alive = false;
        self.q = None;
    }
    pub fn start(&mut self) {
        self.out.line("{\"op\":\"new\"}");
        self.stats.add("runs", 1);
        match guarded(Quantizer::new) {
            Ok(q) => {
                self.q = Some(q);
                self.alive = true;
            }
            Err(m) => self.panic_event("new", &m),
        }
    }
    fn edit(&mut self, op: &str, ns: &[u8]) {
        if !self.alive {
            return;
        }
        let q = self.q.as_mut().unwrap();
        let r = guarded(|| {
            let notes: Vec<Note> = ns.iter().map(|n| Note::from(*n)).collect();
            if op == "al" {
                q.allow(&notes)
            } else {
                q.forbid(&notes)
            }
            mask_of(q)
        });
        let list: Vec<String> = ns.iter().map(|n| n.to_string()).collect();
        match r {
            Ok(m) => {
                self.out.line(&format!("{{\"op\":\"{}\",\"ns\":[{}],\"m\":{}}}", op, list.join(","), m));
                self.stats.add("edits", 1);
            }
            Err(msg) => self.panic_event(&format!("{}([{}])", op, list.join(",")), &msg),
        }
    }
    pub fn mask(&self) -> u32 {
        self.q.as_ref().map(mask_of).unwrap_or(0)
    }
    /// n repetitions of a call pattern, run-length compressed (see midi::Session::repeat)
    pub fn repeat(&mut self, n: usize, head: usize, mut f: impl FnMut(&mut Self)) {
        let mut i = 0;
        while i < n.min(head) {
            f(self);
            i += 1;
        }
        if i >= n || !self.alive {
            return;
        }
        self.out.line("{\"op\":\"mark\"}");
        self.out.begin_capture();
        f(self);
        let pat = self.out.end_capture();
        self.out.emit_all(&pat);
        i += 1;
        self.repeat_like(&pat, n - i, f);
    }
    fn repeat_like(&mut self, pat: &[String], n: usize, mut f: impl FnMut(&mut Self)) {
        let mut same = 0u64;
        let mut i = 0;
        while i < n {
            self.out.begin_capture();
            f(self);
            let cur = self.out.end_capture();
            i += 1;
            if cur == pat {
                same += 1;
            } else {
                if same > 0 {
                    self.out.line(&format!("{{\"op\":\"rep\",\"n\":{}}}", same));
                    same = 0;
                }
                self.out.emit_all(&cur);
                while i < n {
                    f(self);
                    i += 1;
                }
            }
        }
        if same > 0 {
            self.out.line(&format!("{{\"op\":\"rep\",\"n\":{}}}", same));
        }
    }
    pub fn allow(&mut self, ns: &[u8]) {
        self.edit("al", ns)
    }
    pub fn forbid(&mut self, ns: &[u8]) {
        self.edit("fb", ns)
    }
    pub fn convert(&mut self, v: f32) -> Option<u8> {
        if !self.alive {
            return None;
        }
        let q = self.q.as_mut().unwrap();
        match guarded(|| q.convert(v)) {
            Ok(c) => {
                self.out.line(&format!(
                    "{{\"op\":\"cv\",\"k\":{},\"nan\":{},\"u\":{},\"n\":{},\"sk\":{},\"fq\":{},\"eu\":{},\"ec\":{}}}",
                    key(v),
                    v.is_nan(),
                    units(v),
                    c.note_num,
                    key(c.stairstep),
                    frac_units(&c),
                    err_ulps(&c, v),
                    err_ulps(&c, clampv(v))
                ));
                self.stats.add("conversions", 1);
                Some(c.note_num)
            }
            Err(m) => {
                self.panic_event(&format!("convert(key {})", key(v)), &m);
                None
            }
        }
    }
}

fn set_scale(q: &mut Quantizer, mask: u32) {
    build_scale(q, mask, 0)
}

/// reach the scale `mask` on a fresh quantizer through one of several edit histories (the result of a
/// conversion must only depend on the scale, not on how it was reached)
fn build_scale(q: &mut Quantizer, mask: u32, path: u32) {
    let on: Vec<u8> = (0..12u8).filter(|k| mask & (1 << k) != 0).collect();
    let off: Vec<Note> = (0..12u8).filter(|k| mask & (1 << k) == 0).map(Note::from).collect();
    match path % 4 {
        0 => {
            // forbid the complement in one call
            if !off.is_empty() {
                q.forbid(&off);
            }
        }
        1 => {
            // forbid all twelve, ending with a note of the scale (which stays), then allow the rest
            let keep = on[on.len() / 2];
            let mut all: Vec<Note> = (0..12u8).filter(|k| *k != keep).map(Note::from).collect();
            all.push(Note::from(keep));
            q.forbid(&all);
            let rest: Vec<Note> = on.iter().filter(|k| **k != keep).map(|k| Note::from(*k)).collect();
            q.allow(&rest);
        }
        2 => {
            // one note at a time, descending, with a redundant allow in between
            for n in off.iter().rev() {
                q.forbid(&[*n]);
            }
            q.allow(&[Note::from(on[0])]);
        }
        _ => {
            // shrink to the lowest note of the scale, then grow again note by note
            let lowest = on[0];
            let mut all: Vec<Note> = (0..12u8).rev().filter(|k| *k != lowest).map(Note::from).collect();
            all.push(Note::from(lowest));
            q.forbid(&all);
            for k in on.iter().skip(1) {
                q.allow(&[Note::from(*k)]);
            }
        }
    }
}

/// fresh-quantizer sweep of one scale over a grid, run-length compressed
fn sweep_scale(s: &mut Session, mask: u32, step_uv: u32) {
    let mut cur: Option<(i64, i64, u8, i64, i64, i64, i64)> = None; // lo, hi, n, sk, fmin, fmax, eu
    let flush = |s: &mut Session, c: &(i64, i64, u8, i64, i64, i64, i64)| {
        s.out.line(&format!(
            "{{\"op\":\"run\",\"m\":{},\"lo\":{},\"hi\":{},\"n\":{},\"sk\":{},\"fmin\":{},\"fmax\":{},\"eu\":{}}}",
            mask, c.0, c.1, c.2, c.3, c.4, c.5, c.6
        ));
        s.stats.add("runs_of_equal_notes", 1);
    };
    let mut i: u64 = 0;
    loop {
        let uv = (i * step_uv as u64).min(10_000_000);
        let v = (uv as f64 / 1e6) as f32;
        let r = guarded(|| {
            let mut q = Quantizer::new();
            set_scale(&mut q, mask);
            q.convert(v)
        });
        let c = match r {
            Ok(c) => c,
            Err(m) => {
                s.panic_event(&format!("fresh convert(key {}) scale {}", key(v), mask), &m);
                s.alive = true;
                return;
            }
        };
        s.stats.add("conversions", 1);
        let u = units(v);
        let (sk, fq, eu) = (key(c.stairstep), frac_units(&c), err_ulps(&c, v));
        match cur.as_mut() {
            Some(r) if r.2 == c.note_num && r.3 == sk => {
                r.1 = u;
                r.4 = r.4.min(fq);
                r.5 = r.5.max(fq);
                r.6 = r.6.max(eu);
            }
            _ => {
                if let Some(r) = cur.take() {
                    flush(s, &r);
                }
                cur = Some((u, u, c.note_num, sk, fq, fq, eu));
            }
        }
        if uv >= 10_000_000 {
            break;
        }
        i += 1;
    }
    if let Some(r) = cur.take() {
        flush(s, &r);
    }
}

fn scale_list(rng: &mut Rng, n_random: usize) -> Vec<u32> {
    let mut v: Vec<u32> = vec![0xfff];
    for k in 0..12 {
        v.push(1 << k);
    }
    // common musical scales in all transpositions are sparse in a structured way
    for base in [0b1010_1011_0101u32, 0b0101_1010_1101, 0b0010_0101_0101, 0b1001_0010_0100] {
        for t in 0..12 {
            v.push(((base << t) | (base >> (12 - t))) & 0xfff);
        }
    }
    let mut seen: HashSet<u32> = v.iter().cloned().collect();
    while v.len() < 61 + n_random {
        let m = 1 + rng.below(4095) as u32;
        if seen.insert(m) {
            v.push(m);
        }
    }
    v
}

/// one fresh conversion reported as a run of length one
fn probe(s: &mut Session, mask: u32, uv: f64) {
    if !(0.0..=10_000_000.0).contains(&uv) {
        return;
    }
    let v = (uv / 1e6) as f32;
    let path = (uv as u64 / 1_000_000) as u32 + mask;
    let r = guarded(|| {
        let mut q = Quantizer::new();
        build_scale(&mut q, mask, path);
        if mask_of(&q) != mask {
            // the scale edit itself went wrong: report it as a conversion under the scale that resulted
            return (mask_of(&q), q.convert(v));
        }
        (mask, q.convert(v))
    });
    match r {
        Ok((mask, c)) => {
            let u = units(v);
            s.out.line(&format!(
                "{{\"op\":\"run\",\"m\":{},\"lo\":{},\"hi\":{},\"n\":{},\"sk\":{},\"fmin\":{},\"fmax\":{},\"eu\":{}}}",
                mask, u, u, c.note_num, key(c.stairstep), frac_units(&c), frac_units(&c), err_ulps(&c, v)
            ));
            s.stats.add("boundary_probes", 1);
        }
        Err(m) => {
            s.panic_event(&format!("fresh convert(key {}) scale {}", key(v), mask), &m);
            s.alive = true;
        }
    }
}

/// inputs just beyond the tie tolerance on both sides of every decision point of the rule, in every
/// octave: the start of each allowed note's bucket, the end of a bucket whose successor is forbidden,
/// and the midpoint between distant allowed neighbours
pub fn drive_boundaries(s: &mut Session, rng: &mut Rng, thorough: bool) {
    let semi = 1e6 / 12.0;
    // (1..3 microvolts: inside the tie tolerance of C08, but a forbidden note is a forbidden note there too)
    let offs = [1.0f64, 2.0, 3.0, 12.0, 30.0, 70.0];
    let scales = scale_list(rng, if thorough { 600 } else { 40 });
    for m in scales {
        s.start();
        let notes: Vec<u32> = (0..=131u32).filter(|n| m & (1 << (n % 12)) != 0).collect();
        for (i, &n) in notes.iter().enumerate() {
            let vn = n as f64 * semi;
            for o in offs {
                probe(s, m, vn - o);
                probe(s, m, vn + o);
            }
            if let Some(&nx) = notes.get(i + 1) {
                if nx > n + 1 {
                    // bucket end (one semitone above n) and, if further apart, the midpoint
                    for o in offs {
                        probe(s, m, vn + semi - o);
                        probe(s, m, vn + semi + o);
                    }
                    if nx > n + 2 {
                        let mid = (vn + nx as f64 * semi) / 2.0;
                        for o in offs {
                            probe(s, m, mid - o);
                            probe(s, m, mid + o);
                        }
                    }
                }
            }
        }
        // just below / above the voltage of every FORBIDDEN note as well (an index slip at a semitone or
        // octave border reports the note the border belongs to, allowed or not)
        for n in 0..=131u32 {
            if m & (1 << (n % 12)) == 0 {
                let vn = n as f64 * semi;
                for o in [1.0f64, 3.0] {
                    probe(s, m, vn - o);
                    probe(s, m, vn + o);
                }
            }
        }
        s.stats.add("distinct_scales", 1);
    }
}

/// random walk over edits and conversions placed relative to the note last reported: inside its
/// bucket, in the two hysteresis margins, just outside them, far away; edits of that note's pitch
/// class (forbid, re-allow) with and without conversions in between
pub fn drive_margins(s: &mut Session, rng: &mut Rng, thorough: bool) {
    let semi = 1.0f64 / 12.0;
    for _ in 0..(if thorough { 600 } else { 60 }) {
        s.start();
        if rng.chance(1, 2) {
            random_scale_edit(s, rng);
        }
        let mut last: u8 = s.convert((rng.unit() * 10.0) as f32).unwrap_or(0);
        let mut recent: Vec<f32> = Vec::new();
        for _ in 0..50 {
            let base = last as f64 * semi;
            match rng.below(14) {
                0 => {
                    s.forbid(&[last % 12]);
                }
                1 => {
                    s.allow(&[last % 12]);
                }
                2 => {
                    // forbid and re-allow without a conversion in between: the history must survive
                    s.forbid(&[last % 12]);
                    s.allow(&[last % 12]);
                }
                3 => random_scale_edit(s, rng),
                10 => {
                    // a forbid that would empty the scale and keeps the current note (its pitch class last),
                    // then a neighbour is allowed again, with no conversion in between
                    let pc = last % 12;
                    let mut all: Vec<u8> = (0..12u8).filter(|k| *k != pc).collect();
                    rng.shuffle(&mut all);
                    all.push(pc);
                    s.forbid(&all);
                    let nb = (pc + if rng.chance(1, 2) { 1 } else { 11 }) % 12;
                    s.allow(&[nb]);
                }
                11 => {
                    // a long run of scale edits between two conversions (256, 512 or 65536 forbid calls),
                    // ending with the current note forbidden
                    let n = *rng.pick(&[256usize, 512, 255, 257]);
                    let pc = last % 12;
                    let other = (pc + 5) % 12;
                    s.allow(&[other]);
                    for i in 0..(n - 1) {
                        if i % 2 == 0 {
                            s.forbid(&[pc]);
                        } else {
                            s.allow(&[pc]);
                            s.forbid(&[(pc + 7) % 12]);
                        }
                    }
                    s.forbid(&[pc]);
                }
                k => {
                    let v = match k {
                        4 => base + rng.unit() * semi,                          // inside the bucket
                        5 => base - (0.01 + rng.unit() * 0.08) * semi,          // lower margin
                        6 => base + semi + (0.01 + rng.unit() * 0.08) * semi,   // upper margin
                        7 => base - (0.11 + rng.unit() * 0.2) * semi,           // just below the window
                        8 => base + semi + (0.11 + rng.unit() * 0.2) * semi,    // just above the window
                        9 => base + (rng.unit() * 4.0 - 2.0) * semi,
                        _ => rng.unit() * 10.2 - 0.1,
                    };
                    // now and then re-issue one of the last few inputs, bit-identically
                    let vf = if !recent.is_empty() && rng.chance(1, 4) { *rng.pick(&recent) } else { v as f32 };
                    recent.push(vf);
                    if recent.len() > 4 {
                        recent.remove(0);
                    }
                    if let Some(n) = s.convert(vf) {
                        last = n;
                    }
                }
            }
        }
    }
}

pub fn drive_sweep(s: &mut Session, rng: &mut Rng, thorough: bool, shard: u32) {
    if thorough {
        // all 4095 scales x all 10,000,001 microvolt inputs, 16 shards
        for m in 1..4096u32 {
            if m % 16 == shard {
                s.start();
                sweep_scale(s, m, 1);
                s.stats.add("distinct_scales", 1);
            }
        }
    } else {
        for m in scale_list(rng, 240) {
            s.start();
            sweep_scale(s, m, 250);
            s.stats.add("distinct_scales", 1);
        }
    }
    // first inputs anywhere outside the range (fresh quantizers, a few scales)
    for m in scale_list(rng, 3).into_iter().take(6) {
        for i in 0..60 {
            let v = match i % 4 {
                0 => -(rng.unit() * 12.0) as f32,
                1 => (10.0 + rng.unit() * 12.0) as f32,
                2 => -(rng.below(13) as f32),
                _ => 10.0 + rng.below(13) as f32,
            };
            s.start();
            let off: Vec<u8> = (0..12u8).filter(|k| m & (1 << k) == 0).collect();
            if !off.is_empty() {
                s.forbid(&off);
            }
            s.convert(v);
            s.convert(v);
        }
    }
    // inputs outside the range, infinities, NaN on fresh quantizers
    for m in scale_list(rng, 3).into_iter().take(30) {
        for v in [-0.0f32, -1e-9, -1.0, -1e30, f32::NEG_INFINITY, 10.000001, 10.5, 11.0, 1e9, f32::INFINITY, f32::NAN,
                  f32::MIN_POSITIVE, 1e-40]
        {
            s.start();
            let off: Vec<u8> = (0..12u8).filter(|k| m & (1 << k) == 0).collect();
            if !off.is_empty() {
                s.forbid(&off);
            }
            s.convert(v);
        }
    }
}

fn random_scale_edit(s: &mut Session, rng: &mut Rng) {
    let n = rng.below(13) as usize;
    let ns: Vec<u8> = (0..n)
        .map(|_| {
            if rng.chance(1, 8) {
                // note numbers beyond B act as B: the first few of them, the sign bit, the last, any
                if rng.chance(1, 2) { *rng.pick(&[12u8, 13, 15, 16, 23, 24, 127, 128, 255]) } else { 12 + rng.below(244) as u8 }
            } else {
                rng.below(12) as u8
            }
        })
        .collect();
    if rng.chance(1, 2) {
        s.allow(&ns)
    } else {
        s.forbid(&ns)
    }
}

/// histories: slow ramps, noise around boundaries, jumps, scale edits between conversions
pub fn drive_hyst(s: &mut Session, rng: &mut Rng, thorough: bool) {
    let reps = if thorough { 12 } else { 2 };
    let semi = 1.0f64 / 12.0;
    for rep in 0..reps {
        // (a) ramps up and down through all 120 semitones, chromatic and seeded scales
        for k in 0..6 {
            s.start();
            if k > 0 {
                let m = 1 + rng.below(4095) as u32;
                let off: Vec<u8> = (0..12u8).filter(|b| m & (1 << b) == 0).collect();
                if !off.is_empty() {
                    s.forbid(&off);
                }
            }
            let step = semi * (0.013 + rng.unit() * 0.05);
            let mut v = -0.05f64;
            while v < 10.1 {
                s.convert(v as f32);
                v += step;
            }
            while v > -0.05 {
                s.convert(v as f32);
                v -= step * 1.7;
            }
        }
        // (b) noise of +-0.09 semitone around every chromatic boundary in every octave
        s.start();
        for b in 0..=120u32 {
            let centre = b as f64 * semi;
            for _ in 0..8 {
                let v = centre + (rng.unit() * 2.0 - 1.0) * 0.09 * semi;
                s.convert(v as f32);
            }
        }
        // (c) window edges: just inside / outside (>= 12 microvolts away from the edge)
        for sparse in [false, true] {
            s.start();
            if sparse {
                random_scale_edit(s, rng);
            }
            for _ in 0..400 {
                let n = rng.below(121) as f64;
                s.convert((n * semi + rng.unit() * semi) as f32);
                let edge = if rng.chance(1, 2) { n * semi - 0.1 * semi } else { (n + 1.0) * semi + 0.1 * semi };
                let d = (12e-6 + rng.unit() * 300e-6) * if rng.chance(1, 2) { 1.0 } else { -1.0 };
                s.convert((edge + d) as f32);
                s.convert((edge - d) as f32);
            }
        }
        // (d) jumps and scale edits; the same input repeated after each edit, in every octave
        for _ in 0..(if rep == 0 { 40 } else { 20 }) {
            s.start();
            for _ in 0..60 {
                match rng.below(8) {
                    0 | 1 => random_scale_edit(s, rng),
                    2 => {
                        let v = (rng.below(121) as f64 * semi + rng.unit() * semi) as f32;
                        s.convert(v);
                        // forbid the note just reported, then convert the same input again
                        let n = s.convert(v).unwrap_or(0);
                        s.forbid(&[n % 12]);
                        s.convert(v);
                        s.allow(&[n % 12]);
                        s.convert(v);
                    }
                    3 => {
                        s.convert(*rng.pick(&[-1.0f32, 0.0, 10.0, 10.04, 10.2, 11.0, f32::NAN, f32::INFINITY,
                                              f32::NEG_INFINITY, -0.005, 9.999]));
                    }
                    _ => {
                        s.convert((rng.unit() * 10.4 - 0.2) as f32);
                    }
                }
            }
        }
    }
}

/// histories aimed at shortcuts an implementation might take: memo keys mixing the input bits with the
/// scale, argument lists longer than an octave, edit counters that wrap, extreme first inputs
pub fn drive_shortcuts(s: &mut Session, rng: &mut Rng, thorough: bool) {
    let semi = 1.0f64 / 12.0;
    // (a) after a scale edit the next input differs from the previous one exactly by a combination of the
    //     old and the new scale word (any (input, scale) hash that collides then returns a stale note)
    for _ in 0..(if thorough { 400 } else { 80 }) {
        s.start();
        random_scale_edit(s, rng);
        for _ in 0..12 {
            let v = (rng.below(121) as f64 * semi + rng.unit() * semi) as f32;
            let n = s.convert(v).unwrap_or(0);
            let m0 = s.mask();
            match rng.below(3) {
                0 => s.forbid(&[n % 12]),
                1 => random_scale_edit(s, rng),
                _ => s.forbid(&[n % 12, (n + 1) % 12]),
            }
            let m1 = s.mask();
            let b = v.to_bits();
            let cands = [b ^ (m0 ^ m1), b ^ m1, b ^ m0, b.wrapping_add(m1).wrapping_sub(m0), b.wrapping_add(m0).wrapping_sub(m1),
                         b ^ ((m0 ^ m1) << 12), b ^ ((m0 ^ m1) << 20)];
            let w = f32::from_bits(cands[rng.below(cands.len() as u64) as usize]);
            if w.is_finite() && w > -1.0 && w < 11.0 {
                s.convert(w);
            }
            s.convert(f32::from_bits(b ^ (m0 ^ m1)));
        }
    }
    // (a3) neighbouring floats: on a sparse scale, far outside every hysteresis window (so that each conversion
    //      is a fresh search), inputs that differ by 1 .. 9 floats - below 4 V several floats share a
    //      microvolt, and a search memoised on a coarser key than the input returns the earlier fraction
    for _ in 0..(if thorough { 300 } else { 60 }) {
        s.start();
        let keep = rng.below(12) as u8;
        let all: Vec<u8> = (0..12u8).filter(|k| *k != keep && (*k != (keep + 7) % 12 || rng.chance(1, 2))).collect();
        s.forbid(&all);
        for _ in 0..6 {
            let v = (rng.unit() * 4.0) as f32;
            s.convert(v);
            let mut b = v.to_bits();
            for _ in 0..4 {
                b = b.wrapping_add(1 + rng.below(4) as u32);
                s.convert(f32::from_bits(b));
            }
            s.convert(f32::from_bits(v.to_bits().wrapping_sub(3)));
        }
    }
    // (a4) a scale edited back to what it was: without Y, two conversions inside one window; Y allowed, a
    //      conversion that lands on Y; Y forbidden again (the scale word is the one remembered from the start)
    //      and the same input once more - anything remembered "under this scale" is stale now
    for y in 0..12u8 {
        for &oct in [0u32, 4, 9].iter() {
            s.start();
            if rng.chance(1, 2) {
                s.forbid(&[(y + 5) % 12]);
            }
            s.forbid(&[y]);
            let x = (y + 3) % 12;
            let vx = ((oct * 12 + x as u32) as f64 * semi + 0.4 * semi) as f32;
            s.convert(vx);
            s.convert(vx + 0.01);
            s.allow(&[y]);
            let vy = ((oct * 12 + y as u32) as f64 * semi + 0.3 * semi) as f32;
            s.convert(vy);
            s.forbid(&[y]);
            s.convert(vy);
            s.convert(vy + 0.004);
            s.allow(&[y]);
            s.convert(vy);
        }
    }
    // (b) argument lists longer than an octave: repeats first, the decisive notes late in the list
    for _ in 0..(if thorough { 200 } else { 50 }) {
        s.start();
        let len = 13 + rng.below(30) as usize;
        let few: Vec<u8> = (0..(1 + rng.below(4))).map(|_| rng.below(12) as u8).collect();
        let mut ns: Vec<u8> = (0..len).map(|_| *rng.pick(&few)).collect();
        let late = 12 + rng.below((len - 12) as u64) as usize;
        for k in late..len {
            ns[k] = rng.below(12) as u8;
        }
        if rng.chance(1, 2) {
            s.forbid(&ns);
        } else {
            s.forbid(&[0, 1, 2, 3, 4, 5, 6, 7, 8, 9, 10, 11]);
            s.allow(&ns);
        }
        for _ in 0..10 {
            let k = ns[late + rng.below((len - late) as u64) as usize] as f64;
            let oct = rng.below(10) as f64;
            s.convert((oct + k * semi + (rng.unit() - 0.3) * semi) as f32);
        }
    }
    // (c) exactly 2^16 (and 2^8, 2^16 + 2^8) scale edits between two conversions of the same input, the net
    //     effect of which moves the nearest allowed note
    for variant in 0..6 {
        s.start();
        let oct = rng.below(10) as f64;
        let v = (oct + 2.0 * semi + (rng.unit() - 0.5) * 0.5 * semi) as f32; // near D
        let reps = match variant % 3 { 0 => 32768usize, 1 => 128, _ => 32768 + 128 };
        if variant < 3 {
            // every call counted: (forbid D, allow D) x reps, D ends up allowed
            s.forbid(&[1, 2, 3, 5, 6, 7, 8, 9, 10, 11]); // {C, E}
            s.convert(v);
            s.repeat(reps, 2, |s| {
                s.forbid(&[2]);
                s.allow(&[2]);
            });
        } else {
            // only effective changes counted: 2 * reps - 1 toggles of D, then F
            s.forbid(&[1, 3, 5, 6, 7, 8, 9, 10, 11]); // {C, D, E}
            s.convert(v);
            s.forbid(&[2]);
            s.repeat(reps - 1, 2, |s| {
                s.allow(&[2]);
                s.forbid(&[2]);
            });
            s.allow(&[3]);
        }
        s.convert(v);
        s.convert(v);
    }
    // (c2) out-of-range note numbers in scale edits (they act as B), then the emptied-scale guard
    for &n in &[12u8, 13, 16, 127, 128, 255] {
        s.start();
        s.forbid(&[n]);
        s.convert((rng.below(10) as f64 + 11.0 * semi + 0.01) as f32);
        s.allow(&[n]);
        s.forbid(&[0, 1, 2, 3, 4, 5, 6, 7, 8, 9, 10, 11]);
        s.convert((rng.unit() * 10.0) as f32);
        s.allow(&[4]);
        s.forbid(&[n, 11]);
        s.convert((rng.unit() * 10.0) as f32);
    }
    // (d) extreme and non-finite values as the very first input of a quantizer, with and without C
    for path in 0..4u32 {
        for &x in &[f32::MIN, f32::MAX, f32::INFINITY, f32::NEG_INFINITY, f32::NAN, -0.0f32, 0.0, f32::MIN_POSITIVE, -1e-45, 1e-45,
                    -f32::MIN_POSITIVE, 10.0, 1e30, -1e30] {
            s.start();
            match path {
                0 => {}
                1 => s.forbid(&[0]),
                2 => s.forbid(&[1, 2, 3, 4, 5, 6, 7, 8, 9, 10, 11]),
                _ => random_scale_edit(s, rng),
            }
            s.convert(x);
            s.convert(x);
            s.convert((rng.unit() * 10.0) as f32);
            s.convert(x);
        }
    }
}

fn rerun_one(s: &mut Session, e: &serde_json::Value) {
    {
        match e["op"].as_str().unwrap_or("") {
            "new" => s.start(),
            "al" | "fb" => {
                let ns: Vec<u8> = e["ns"].as_array().unwrap().iter().map(|x| x.as_u64().unwrap() as u8).collect();
                if e["op"] == "al" {
                    s.allow(&ns)
                } else {
                    s.forbid(&ns)
                }
            }
            "cv" => {
                let k = e["k"].as_i64().unwrap();
                let v = if k == NAN_KEY { f32::NAN } else { unkey(k) };
                s.convert(v);
            }
            "run" => {
                // re-sweep the run's two ends (and a few interior points) on fresh quantizers
                let m = e["m"].as_u64().unwrap() as u32;
                let lo = e["lo"].as_i64().unwrap();
                let hi = e["hi"].as_i64().unwrap();
                for u in [lo, (lo + hi) / 2, hi] {
                    let v = ((u as f64 + 0.5) / 1.2e7) as f32;
                    let c = {
                        let mut q = Quantizer::new();
                        set_scale(&mut q, m);
                        q.convert(v)
                    };
                    let uu = units(v);
                    s.out.line(&format!(
                        "{{\"op\":\"run\",\"m\":{},\"lo\":{},\"hi\":{},\"n\":{},\"sk\":{},\"fmin\":{},\"fmax\":{},\"eu\":{}}}",
                        m, uu, uu, c.note_num, key(c.stairstep), frac_units(&c), frac_units(&c), err_ulps(&c, v)
                    ));
                }
            }
            _ => {}
        }
    }
}

pub fn rerun(lines: &[serde_json::Value], out: &mut Out) {
    let mut s = Session::new(out);
    let mut mark: Option<usize> = None;
    for (i, e) in lines.iter().enumerate() {
        match e["op"].as_str().unwrap_or("") {
            "mark" => {
                s.out.line("{\"op\":\"mark\"}");
                s.out.begin_capture();
                mark = Some(i);
            }
            "rep" => {
                let pat_out = s.out.end_capture();
                s.out.emit_all(&pat_out);
                if let Some(m) = mark.take() {
                    let pat: Vec<&serde_json::Value> = lines[m + 1..i].iter().collect();
                    let n = e["n"].as_u64().unwrap() as usize;
                    s.repeat_like(&pat_out, n, |s| {
                        for x in &pat {
                            rerun_one(s, x);
                        }
                    });
                }
            }
            _ => rerun_one(&mut s, e),
        }
    }
    let rest = s.out.end_capture();
    s.out.emit_all(&rest);
}

pub fn record(driver: &str, seed: u64, thorough: bool, out: &mut Out) -> Stats {
    let mut rng = Rng::new(seed ^ 0x7175_616e);
    let mut s = Session::new(out);
    let (name, shard) = match driver.split_once(':') {
        Some((n, k)) => (n, k.parse::<u32>().unwrap_or(0)),
        None => (driver, 0),
    };
    match name {
        "sweep" => drive_sweep(&mut s, &mut rng, thorough, shard),
        "hyst" => {
            drive_hyst(&mut s, &mut rng, thorough);
            drive_margins(&mut s, &mut rng, thorough);
            drive_shortcuts(&mut s, &mut rng, thorough);
        }
        "boundaries" => drive_boundaries(&mut s, &mut rng, thorough),
        _ => {
            eprintln!("unknown quantizer driver {}", driver);
            std::process::exit(2)
        }
    }
    s.stats
}

// ---------------------------------------------------------------------------------------------
// specification -> implementation: every transition of the bounded Quantizer.tla graph
// (spec/Graph_Quantizer.cfg: the real constants on a grid of 1/240 V, scales reached by editing C, G, B
// and "all the others") on the real Quantizer. One model unit is 1/240 V; every input of the graph is two
// or more units (8 mV) away from every bucket border, window edge and nearest-note midpoint, so the note
// is determined without any tolerance. Events are written in the trace format of this module, so that a
// mismatch can be replayed and re-validated by Trace_Quantizer like any recorded run.

pub struct GraphTarget {
    out: Out,
    q: Option<Quantizer>,
}

impl GraphTarget {
    pub fn new() -> Self {
        GraphTarget { out: Out::memory(), q: None }
    }
}

impl crate::graphrun::Target for GraphTarget {
    fn fresh(&mut self) {
        self.out = Out::memory();
        self.out.line("{\"op\":\"new\"}");
        self.q = guarded(Quantizer::new).ok();
    }
    fn apply(&mut self, op: &serde_json::Value, p: &serde_json::Value) -> Vec<String> {
        let mut tags = Vec::new();
        let q = match self.q.as_mut() {
            Some(q) => q,
            None => return vec!["C17:panic".to_string()],
        };
        let want_mask: u32 = p[1].as_array().unwrap().iter().fold(0, |m, k| m | (1 << k.as_u64().unwrap()));
        match op["op"].as_str().unwrap() {
            "cv" => {
                let u = op["u"].as_i64().unwrap();
                let v = (u as f64 / 240.0) as f32;
                match guarded(|| q.convert(v)) {
                    Ok(c) => {
                        self.out.line(&format!(
                            "{{\"op\":\"cv\",\"k\":{},\"nan\":false,\"u\":{},\"n\":{},\"sk\":{},\"fq\":{},\"eu\":{},\"ec\":{}}}",
                            key(v), units(v), c.note_num, key(c.stairstep), frac_units(&c), err_ulps(&c, v), err_ulps(&c, clampv(v))
                        ));
                        let want = p[0].as_u64().unwrap();
                        if c.note_num as u64 != want {
                            if want_mask & (1 << (c.note_num % 12)) == 0 {
                                tags.push("C07:forbidden-note".to_string());
                            }
                            if op["k"].as_bool().unwrap_or(false) {
                                tags.push("C09:graph-note-not-kept-inside-window".to_string());
                            } else {
                                tags.push("C09:graph-history-leaks-outside-window".to_string());
                                tags.push("C08:graph-not-nearest".to_string());
                            }
                        }
                    }
                    Err(msg) => {
                        self.out.line(&format!("{{\"op\":\"panic\",\"where\":\"convert\",\"during\":\"convert\",\"msg\":{}}}", jstr(&msg)));
                        self.q = None;
                        return vec!["C17:panic".to_string(), "C08:panic".to_string(), "C07:panic".to_string(), "C09:panic".to_string()];
                    }
                }
            }
            o @ ("al" | "fb") => {
                let ns: Vec<u8> = op["ns"].as_array().unwrap().iter().map(|x| x.as_u64().unwrap() as u8).collect();
                let r = guarded(|| {
                    let notes: Vec<Note> = ns.iter().map(|n| Note::from(*n)).collect();
                    if o == "al" {
                        q.allow(&notes)
                    } else {
                        q.forbid(&notes)
                    }
                });
                if let Err(msg) = r {
                    self.out.line(&format!("{{\"op\":\"panic\",\"where\":\"edit\",\"during\":\"{}\",\"msg\":{}}}", o, jstr(&msg)));
                    self.q = None;
                    return vec!["C17:panic".to_string(), "C07:panic".to_string(), "C20:panic".to_string()];
                }
                let list: Vec<String> = ns.iter().map(|n| n.to_string()).collect();
                self.out.line(&format!("{{\"op\":\"{}\",\"ns\":[{}],\"m\":{}}}", o, list.join(","), mask_of(self.q.as_ref().unwrap())));
            }
            other => {
                eprintln!("unknown quantizer graph op {}", other);
                std::process::exit(2)
            }
        }
        if let Some(q) = self.q.as_ref() {
            if mask_of(q) != want_mask {
                tags.push("C07:graph-scale".to_string());
                if op["op"] != "cv" && op["ns"].as_array().unwrap().iter().any(|x| x.as_u64().unwrap() > 11) {
                    tags.push("C20:note-not-clamped".to_string());
                }
            }
        }
        tags
    }
    fn trace(&self) -> Vec<String> {
        self.out.mem.clone()
    }
}
