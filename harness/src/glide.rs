//! Glide processor: trace recording drivers and trace re-execution.
use crate::util::*;
use std::collections::HashSet;
use synth_utils::glide_processor::GlideProcessor;

pub const RATES: [u32; 5] = [100, 1000, 8000, 44100, 48000];

pub struct Session<'a> {
    gp: Option<GlideProcessor>,
    pub fs: u32,
    out: &'a mut Out,
    pub stats: Stats,
    pub alive: bool,
    last_x: f32,
    /// logged values are multiplied by 2^-scale (exact), so that very large / very small signals fit the
    /// Q24 image; all predicates of the specification are invariant under this scaling
    pub scale: i32,
    pub settings: HashSet<(u32, i64)>,
}

impl<'a> Session<'a> {
    pub fn new(out: &'a mut Out) -> Self {
        Session { gp: None, fs: 0, out, stats: Stats::new(), alive: false, last_x: 0.0, scale: 0, settings: HashSet::new() }
    }
    fn panic_event(&mut self, during: &str, msg: &str) {
        let wh = if during.starts_with("process") { "process" } else { "set_time" };
        self.out.line(&format!(
            "{{\"op\":\"panic\",\"where\":\"{}\",\"during\":{},\"msg\":{}}}",
            wh,
            jstr(during),
            jstr(msg)
        ));
        self.stats.add("panics", 1);
        self.alive = false;
        self.gp = None;
    }
    pub fn start(&mut self, fs: u32) {
        self.fs = fs;
        self.last_x = 0.0;
        self.out.line(&format!("{{\"op\":\"new\",\"fs\":{},\"scale\":{}}}", fs, self.scale));
        self.stats.add("runs", 1);
        match guarded(|| GlideProcessor::new(fs as f32)) {
            Ok(g) => {
                self.gp = Some(g);
                self.alive = true;
            }
            Err(m) => self.panic_event("new", &m),
        }
    }
    pub fn set_time(&mut self, t: f32) {
        if !self.alive {
            return;
        }
        let us = ((t as f64) * 1e6).floor().min(2.0e9).max(-1.0) as i64;
        let g = self.gp.as_mut().unwrap();
        match guarded(|| g.set_time(t)) {
            Ok(()) => {
                self.out.line(&format!("{{\"op\":\"st\",\"tk\":{},\"us\":{}}}", key(t), us));
                self.stats.add("set_time", 1);
                self.settings.insert((self.fs, us));
            }
            Err(m) => self.panic_event(&format!("set_time(key {})", key(t)), &m),
        }
    }
    pub fn process(&mut self, x: f32) -> f32 {
        if !self.alive {
            return 0.0;
        }
        let g = self.gp.as_mut().unwrap();
        match guarded(|| g.process(x)) {
            Ok(y) => {
                let k = (2.0f32).powi(-self.scale);
                self.out.line(&format!(
                    "{{\"op\":\"p\",\"xk\":{},\"xq\":{},\"yq\":{},\"yk\":{}}}",
                    key(x),
                    q24(x * k),
                    q24(y * k),
                    key(y)
                ));
                self.stats.add("samples", 1);
                self.last_x = x;
                y
            }
            Err(m) => {
                self.panic_event("process", &m);
                0.0
            }
        }
    }
    /// n more samples of the same input as the previous call, not logged one by one
    pub fn stretch(&mut self, n: u32) {
        if !self.alive || n == 0 {
            return;
        }
        let x = self.last_x;
        let g = self.gp.as_mut().unwrap();
        match guarded(|| {
            let (mut mn, mut mx, mut last) = (f32::INFINITY, f32::NEG_INFINITY, 0.0f32);
            let mut nan = false;
            for _ in 0..n {
                last = g.process(x);
                if last.is_nan() {
                    nan = true;
                }
                mn = mn.min(last);
                mx = mx.max(last);
            }
            (mn, mx, last, nan)
        }) {
            Ok((mn, mx, last, nan)) => {
                let k = (2.0f32).powi(-self.scale);
                let (a, b, c) = if nan { (NAN_KEY, NAN_KEY, NAN_KEY) } else { (q24(mn * k), q24(mx * k), q24(last * k)) };
                self.out.line(&format!(
                    "{{\"op\":\"ps\",\"n\":{},\"xk\":{},\"xq\":{},\"yq\":{},\"ymin\":{},\"ymax\":{}}}",
                    n, key(x), q24(x * k), c, a, b
                ));
                self.stats.add("samples", n as i64);
            }
            Err(m) => self.panic_event("process (stretch)", &m),
        }
    }
    /// hold input x for `total` samples: the first `head` logged, then stretches with a few logged
    /// samples in between
    pub fn hold(&mut self, x: f32, total: u64, head: u64) {
        let mut done = 0u64;
        while done < total.min(head) && self.alive {
            self.process(x);
            done += 1;
        }
        while done < total && self.alive {
            let chunk = ((total - done) / 6).max(1).min(100_000) as u32;
            self.stretch(chunk);
            done += chunk as u64;
            if done < total {
                self.process(x);
                done += 1;
            }
        }
    }
}

fn grid(rng: &mut Rng) -> f32 {
    (rng.range(-8192, 8192) as f32) / 1024.0
}

/// steps from rest over the (fs, t) plane (C14 coverage, C13 settle)
pub fn drive_steps(s: &mut Session, rng: &mut Rng, n_cases: usize) {
    let sizes = [1.0f32, 0.25, -3.0];
    let offsets = [0.0f32, 2.0, -5.0];
    for i in 0..n_cases {
        let fs = RATES[i % RATES.len()];
        // t*fs >= 100 on a log grid, t <= 10 s (and a few beyond, which behave like 10 s)
        let tmin = 100.0 / fs as f64;
        let t = match i % 9 {
            0 => 10.0,
            1 => *rng.pick(&[12.0, 20.0, 100.0]),
            2 => tmin * 1.01,
            _ => rng.log_uniform(tmin, 10.0),
        } as f32;
        // keep the accumulated f32 band small against the step: long glides use offset 0
        let n = (t.min(10.0) as f64 * fs as f64) as u64;
        let (off, size) = if n > 20_000 { (0.0, 1.0) } else { (*rng.pick(&offsets), *rng.pick(&sizes)) };
        s.start(fs);
        s.set_time(t);
        s.hold(off, 4 * n + 16, 12);
        // the step itself
        let tenth = n / 10;
        let x = off + size;
        let head = 24.min(tenth.max(3));
        let mut done = 0u64;
        for _ in 0..head {
            s.process(x);
            done += 1;
        }
        // logged samples around t/10, t and 3t
        for target in [tenth.saturating_sub(3), tenth + 2, n + 1, 3 * n + 2] {
            if target > done + 1 {
                s.stretch((target - done - 1) as u32);
                done = target - 1;
            }
            for _ in 0..3 {
                s.process(x);
                done += 1;
            }
        }
        s.stats.add("step_cases", 1);
    }
    // the fastest setting: times below two samples
    for &fs in RATES.iter() {
        for t in [0.0f32, 0.5 / fs as f32, 1.9 / fs as f32, 1e-9] {
            s.start(fs);
            s.set_time(t);
            s.hold(2.0, 12, 12);
            s.hold(-1.5, 12, 12);
            s.hold(0.25, 12, 12);
        }
    }
}

/// arbitrary input sequences and set_time schedules, in particular switching the time (to 0, to
/// values around 2/fs and 4/fs) in the middle of a glide
pub fn drive_sched(s: &mut Session, rng: &mut Rng, runs: usize) {
    for r in 0..runs {
        let fs = RATES[r % RATES.len()];
        s.start(fs);
        let mut x = grid(rng);
        let segs = 6 + rng.below(10);
        for _ in 0..segs {
            match rng.below(10) {
                0 | 1 | 2 => {
                    let t: f32 = match rng.below(9) {
                        0 => 0.0,
                        1 => (rng.unit() * 2.0 / fs as f64) as f32,
                        2 => ((2.0 + rng.unit() * 4.0) / fs as f64) as f32,
                        3 => (rng.unit() * 0.2) as f32,
                        4 => 10.0,
                        5 => (rng.log_uniform(1.0, 2000.0) / fs as f64).min(10.0) as f32,
                        _ => rng.log_uniform(1e-4, 10.0) as f32,
                    };
                    s.set_time(t);
                }
                3 => {
                    // arbitrary (non constant) input for a while
                    for _ in 0..(5 + rng.below(40)) {
                        x = grid(rng);
                        s.process(x);
                    }
                }
                4 => {
                    // a slow staircase
                    for _ in 0..(3 + rng.below(8)) {
                        x = (x + (rng.range(-64, 64) as f32) / 1024.0).max(-8.0).min(8.0);
                        s.hold(x, 3 + rng.below(10), 20);
                    }
                }
                _ => {
                    x = grid(rng);
                    let n = 4 + rng.below(300);
                    s.hold(x, n, 40);
                }
            }
        }
        // finally: mid-glide, switch to the fastest setting and keep the input constant
        x = grid(rng);
        s.set_time((rng.log_uniform(20.0, 400.0) / fs as f64) as f32);
        s.hold(x, 10 + rng.below(30), 50);
        let tf = *rng.pick(&[0.0f32, 1e-6, 1e-4]);
        s.set_time(tf.min(1.9 / fs as f32));
        s.hold(x, 30, 30);
    }
}

/// a held input whose glide has stalled (increment below half an ulp at a slow setting), then the time
/// is switched to the fastest setting: the output must still settle on the input
pub fn drive_stall(s: &mut Session, rng: &mut Rng, runs: usize) {
    for r in 0..runs {
        let fs = *rng.pick(&[8000u32, 44100, 48000]);
        s.scale = 0;
        s.start(fs);
        s.set_time(0.0);
        let x0 = *rng.pick(&[4.0f32, 2.0, -6.0, 1.0]);
        s.hold(x0, 12, 12);
        s.set_time(10.0);
        let dx = (1 + rng.below(6)) as f32 / 1024.0 * if r % 2 == 0 { 1.0 } else { -1.0 };
        let n = 40 + rng.below(40);
        s.hold(x0 + dx, n, 100);
        let tf = *rng.pick(&[0.0f32, 1.0 / 48000.0]);
        s.set_time(tf);
        s.hold(x0 + dx, 40, 40);
    }
}

/// very large and very small signals (logged through an exact power-of-two scaling)
pub fn drive_huge(s: &mut Session, rng: &mut Rng, runs: usize) {
    for r in 0..runs {
        let fs = *rng.pick(&RATES);
        s.scale = if r % 2 == 0 { 123 } else { -100 };
        s.start(fs);
        let unit = (2.0f32).powi(s.scale);
        for _ in 0..6 {
            let t = *rng.pick(&[0.0f32, 0.001, 0.05, 0.5]);
            s.set_time(t);
            let x = (rng.range(-29, 29) as f32) * unit;
            let n = 4 + rng.below(40);
            s.hold(x, n, 60);
        }
    }
    s.scale = 0;
}

/// steps from rest whose size, and whose first filter outputs, are at the bottom of the f32 range
/// (logged through the same exact power-of-two scaling): coverage at t/10 and t must still hold
pub fn drive_tiny(s: &mut Session, rng: &mut Rng, runs: usize) {
    for r in 0..runs {
        let fs = *rng.pick(&RATES);
        s.scale = *rng.pick(&[-104i32, -110, -116, -120]);
        s.start(fs);
        let unit = (2.0f32).powi(s.scale);
        let t = match r % 4 {
            0 => 10.0f32,
            1 => *rng.pick(&[0.5f32, 2.0, 8.0]),
            2 => 0.0,
            _ => (rng.unit() * 10.0) as f32,
        };
        s.set_time(t);
        let n_eff = ((t.min(10.0) as f64) * fs as f64).max(2.0) as u64;
        let mut x = 0.0f32;
        for _ in 0..2 {
            // a step from rest (the output has settled on the previous input)
            let mut nx = x;
            while nx == x {
                nx = (rng.range(-29, 29) as f32) * unit;
            }
            x = nx;
            s.hold(x, n_eff / 10 + 4, 40);
            s.hold(x, n_eff - n_eff / 10 + 8, 6);
            s.hold(x, 3 * n_eff + 40, 4);
        }
    }
    s.scale = 0;
}

/// chains of nearby set_time calls (the 0.05 s dead band), then a step that reveals which time is
/// in effect
pub fn drive_deadband(s: &mut Session, rng: &mut Rng, runs: usize) {
    for r in 0..runs {
        let fs = *rng.pick(&[1000u32, 8000, 48000]);
        s.start(fs);
        let mut t = rng.log_uniform(0.15, 4.0) as f32;
        s.set_time(t);
        let hops = 2 + rng.below(6);
        for _ in 0..hops {
            let d = match rng.below(5) {
                0 => 0.04,
                1 => -0.04,
                2 => 0.03,
                3 => 0.06,
                _ => -0.06,
            } as f32;
            if t + d > 0.12 {
                t += d;
            }
            // stay clear of the edge of the dead band (f32 rounding of the comparison)
            s.set_time(t);
        }
        if r % 3 == 0 {
            // a far request, then one within the dead band of it
            t = rng.log_uniform(0.2, 3.0) as f32;
            s.set_time(t);
            s.set_time(t + 0.045);
        }
        // settle at 0, step to 1, log the early part densely enough for the t/10 checks
        let n_max = (4.2f64 * fs as f64) as u64;
        s.hold(0.0, 8, 8);
        s.process(1.0);
        let mut done = 1u64;
        while done < n_max.min(6 * fs as u64) {
            let chunk = (done / 8).max(1).min(2000) as u32;
            s.stretch(chunk);
            done += chunk as u64;
            s.process(1.0);
            done += 1;
        }
    }
}

/// the fastest setting held for an exact number of samples (255 .. 257, 65 535 .. 65 537, 131 072) in the
/// middle of a glide, then a slow time again: whatever a "glide is off" shortcut counts or skips, the glide
/// resumes from where the output is (the input is held throughout, so the output may not move away from it)
pub fn drive_fast_counts(s: &mut Session, rng: &mut Rng) {
    for &n in [255u32, 256, 257, 65535, 65536, 65537, 131072].iter() {
        for &fs in [1000u32, 48000].iter() {
            s.start(fs);
            s.set_time(0.8);
            s.hold(0.0, 4, 4);
            s.process(1.0);
            s.stretch(fs / 10);
            s.process(1.0);
            s.set_time(if rng.chance(1, 2) { 0.0 } else { 1.0 / fs as f32 });
            s.process(1.0);
            s.stretch(n - 2);
            s.process(1.0);
            s.set_time(2.0);
            for _ in 0..6 {
                s.process(1.0);
            }
            s.process(0.25);
            s.stretch(fs / 20);
            s.process(0.25);
        }
    }
}

/// requests just outside the dead band (0.05 s + 0.2 .. 0.9 ms, i.e. within one sample period of its edge at
/// 1 kHz but far beyond the rounding of the comparison) must be honoured, requests just inside it (0.05 s
/// - 0.5 ms) are not: short times, where a difference of 0.05 s is a factor of 1.3 .. 1.8 in the time and C14's
/// own bands at t/10 tell the two settings apart
pub fn drive_band_edge(s: &mut Session, rng: &mut Rng, runs: usize) {
    for r in 0..runs {
        let fs = *rng.pick(&[1000u32, 1000, 2000, 8000]);
        s.start(fs);
        let a = (0.06 + 0.14 * rng.unit()) as f32;
        let delta = *rng.pick(&[0.0002f32, 0.0005, 0.0008, 0.0009]);
        let up = rng.chance(2, 3);
        let b = if r % 4 == 3 {
            // just inside: ignored
            if up { a + 0.05 - 0.0005 } else { a + 0.0495 }
        } else if up {
            a + 0.05 + delta
        } else {
            a - 0.05 - delta
        };
        if up || r % 4 == 3 {
            s.set_time(a);
            s.set_time(b);
        } else {
            // downwards: start from the longer time so that both stay above 100 samples at 2 kHz and more
            let a2 = a + 0.06;
            s.set_time(a2);
            s.set_time(a2 - 0.05 - delta);
        }
        let n_max = (0.3f64 * fs as f64) as u64 * 4;
        s.hold(0.0, 8, 8);
        s.process(1.0);
        let mut done = 1u64;
        while done < n_max {
            let chunk = (done / 8).max(1).min(500) as u32;
            s.stretch(chunk);
            done += chunk as u64;
            s.process(1.0);
            done += 1;
        }
    }
}

/// range end points (C17): glide times >= 0 of any finite magnitude, both ends of the rate range
pub fn drive_extreme(s: &mut Session, rng: &mut Rng, runs: usize) {
    let ts: [f32; 12] = [0.0, -0.0, 1e-45, f32::MIN_POSITIVE, 1e-10, 1e-3, 0.05, 10.0, 10.000001, 1e10, f32::MAX, 9.99];
    for r in 0..runs {
        let fs = if r % 2 == 0 { 100 } else { 48000 };
        s.start(fs);
        for _ in 0..12 {
            s.set_time(*rng.pick(&ts));
            let x = *rng.pick(&[0.0f32, 8.0, -8.0, 1.0, -0.5]);
            s.hold(x, 20 + rng.below(200), 30);
        }
    }
}

/// many sample rates (every integer rate 100..=2200 and seeded rates up to 192 kHz): construction,
/// the fastest settings and a few samples each
pub fn drive_rates(s: &mut Session, rng: &mut Rng, thorough: bool) {
    let mut rates: Vec<u32> = (100..=2200).collect();
    for _ in 0..(if thorough { 20000 } else { 2500 }) {
        rates.push(rng.log_uniform(100.0, 192000.0) as u32);
    }
    for fs in rates {
        s.start(fs);
        let t = *rng.pick(&[0.0f32, 1e-9, 1.0 / fs as f32, 2.0 / fs as f32, 1.99 / fs as f32, 3.0 / fs as f32, 10.0, 0.01, 0.3, 1.0]);
        s.set_time(t);
        s.process(1.0);
        s.process(1.0);
        // back to the fastest setting (0, or a time below two samples) after a slower one: the new step must
        // be settled within 8 samples at EVERY sample rate (a conversion of the bound that rounds the wrong way
        // at some rates must not leave the old setting in place)
        let fast = *rng.pick(&[0.0f32, 0.0, 1.0 / fs as f32, 1.9 / fs as f32]);
        s.set_time(fast);
        // the input is held across the change, so the rest of the way is a step the specification times
        for _ in 0..10 {
            s.process(1.0);
        }
        s.process(-1.0);
    }
}

pub fn rerun(lines: &[serde_json::Value], out: &mut Out) {
    let mut s = Session::new(out);
    for e in lines {
        match e["op"].as_str().unwrap_or("") {
            "new" => {
                s.scale = e["scale"].as_i64().unwrap_or(0) as i32;
                s.start(e["fs"].as_u64().unwrap() as u32)
            }
            "st" => s.set_time(unkey(e["tk"].as_i64().unwrap())),
            "p" => {
                s.process(unkey(e["xk"].as_i64().unwrap()));
            }
            "ps" => s.stretch(e["n"].as_u64().unwrap() as u32),
            _ => {}
        }
    }
}

pub fn record(driver: &str, seed: u64, thorough: bool, out: &mut Out) -> Stats {
    let mut rng = Rng::new(seed ^ 0x676c_6964);
    let mut s = Session::new(out);
    match driver {
        "steps" => drive_steps(&mut s, &mut rng, if thorough { 1500 } else { 60 }),
        "sched" => {
            drive_sched(&mut s, &mut rng, if thorough { 3000 } else { 300 });
            drive_stall(&mut s, &mut rng, if thorough { 300 } else { 30 });
            drive_huge(&mut s, &mut rng, if thorough { 200 } else { 20 });
            drive_tiny(&mut s, &mut rng, if thorough { 120 } else { 16 });
            drive_fast_counts(&mut s, &mut rng);
        }
        "deadband" => {
            drive_deadband(&mut s, &mut rng, if thorough { 400 } else { 40 });
            drive_band_edge(&mut s, &mut rng, if thorough { 600 } else { 80 });
        }
        "extreme" => drive_extreme(&mut s, &mut rng, if thorough { 200 } else { 30 }),
        "rates" => drive_rates(&mut s, &mut rng, thorough),
        _ => {
            eprintln!("unknown glide driver {}", driver);
            std::process::exit(2)
        }
    }
    let n = s.settings.len() as i64;
    s.stats.add("distinct_rate_time_settings", n);
    s.stats
}

// ---------------------------------------------------------------------------------------------
// specification -> implementation: every transition of the dead-band graph (spec/Graph_Glide.cfg) on a
// real GlideProcessor at 100 Hz. Times are multiples of 10 ms, no two of them exactly 50 ms apart.
// set_time has no read-back; the observing operation "probe" feeds a step from rest and compares the
// response, sample by sample, with that of a NEW processor that was given the time the specification says
// is in effect (a first set_time is always honoured). Two processors with the same time in effect agree to
// rounding (3e-4 is allowed); times one dead band apart differ by 8e-4 of the step or more within the 48
// samples compared. At the fastest setting the statement's own bound is checked instead.

pub struct GraphTarget {
    out: Out,
    gp: Option<GlideProcessor>,
}

impl GraphTarget {
    pub fn new() -> Self {
        GraphTarget { out: Out::memory(), gp: None }
    }
    fn log_p(&mut self, x: f32, y: f32) {
        self.out.line(&format!("{{\"op\":\"p\",\"xk\":{},\"xq\":{},\"yq\":{},\"yk\":{}}}", key(x), q24(x), q24(y), key(y)));
    }
}

const PROBE_SAMPLES: usize = 48;

impl crate::graphrun::Target for GraphTarget {
    fn fresh(&mut self) {
        self.out = Out::memory();
        self.out.line("{\"op\":\"new\",\"fs\":100,\"scale\":0}");
        self.gp = guarded(|| GlideProcessor::new(100.0)).ok();
    }
    fn apply(&mut self, op: &serde_json::Value, p: &serde_json::Value) -> Vec<String> {
        let panic_tags = |w: &str| -> Vec<String> { vec![format!("C14:panic-in-{}", w), format!("C13:panic-in-{}", w), "C17:panic".to_string()] };
        if self.gp.is_none() {
            return panic_tags("new");
        }
        match op["op"].as_str().unwrap() {
            "set" => {
                let t = op["t"].as_i64().unwrap() as f32 / 100.0;
                let g = self.gp.as_mut().unwrap();
                if guarded(|| g.set_time(t)).is_err() {
                    self.gp = None;
                    return panic_tags("set-time");
                }
                let us = ((t as f64) * 1e6).floor() as i64;
                self.out.line(&format!("{{\"op\":\"st\",\"tk\":{},\"us\":{}}}", key(t), us));
                Vec::new()
            }
            "probe" => {
                let eff = p[0].as_i64().unwrap() as f32 / 100.0;
                let mut g = self.gp.take().unwrap();
                let r = guarded(|| {
                    let mut reference = GlideProcessor::new(100.0);
                    reference.set_time(eff);
                    let mut ys = Vec::with_capacity(PROBE_SAMPLES);
                    let mut worst = 0.0f32;
                    for _ in 0..PROBE_SAMPLES {
                        let y = g.process(1.0);
                        let z = reference.process(1.0);
                        let d = (y - z).abs();
                        if !(d <= worst) {
                            worst = if d.is_nan() { f32::INFINITY } else { d };
                        }
                        ys.push(y);
                    }
                    (ys, worst)
                });
                match r {
                    Ok((ys, worst)) => {
                        // the probe moved the filter state: the object is not used again (the graph's sink)
                        // at the fastest setting the only promise is "settled within 8 samples" (a new processor
                        // and one told a time below two samples need not be the same filter)
                        let fastest = p[0].as_i64().unwrap() <= 2;
                        let bad = if fastest { !(ys[7] >= 0.995 && ys[7] <= 1.0001) } else { worst > 3.0e-4 };
                        for y in ys {
                            self.log_p(1.0, y);
                        }
                        if bad {
                            vec!["C14:graph-time-in-effect".to_string()]
                        } else {
                            Vec::new()
                        }
                    }
                    Err(_) => panic_tags("process"),
                }
            }
            other => {
                eprintln!("unknown glide graph op {}", other);
                std::process::exit(2)
            }
        }
    }
    fn trace(&self) -> Vec<String> {
        self.out.mem.clone()
    }
}
