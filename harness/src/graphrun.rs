//! Specification -> implementation: every transition of a TLC state graph is stepped through the
//! real object (shortest path from the initial state, then the edge), followed by seeded random
//! walks that compare the projected state after every step.
use crate::util::*;
use serde_json::Value;

pub struct Edge {
    pub s: usize,
    pub t: usize,
    pub op: Value,
    pub p: Value,
}

pub struct Graph {
    pub nstates: usize,
    pub init: usize,
    pub init_proj: Value,
    pub edges: Vec<Edge>,
    pub parent: Vec<i64>,
    pub out: Vec<Vec<usize>>,
}

pub fn load(path: &str) -> Graph {
    let text = std::fs::read_to_string(path).unwrap_or_else(|e| {
        eprintln!("cannot read {}: {}", path, e);
        std::process::exit(2)
    });
    let v: Value = serde_json::from_str(&text).unwrap_or_else(|e| {
        eprintln!("bad graph json: {}", e);
        std::process::exit(2)
    });
    let nstates = v["nstates"].as_u64().unwrap() as usize;
    let init = v["init"].as_u64().unwrap() as usize;
    let mut edges = Vec::new();
    for e in v["edges"].as_array().unwrap() {
        edges.push(Edge {
            s: e[0].as_u64().unwrap() as usize,
            t: e[1].as_u64().unwrap() as usize,
            op: e[2].clone(),
            p: e[3].clone(),
        });
    }
    let parent: Vec<i64> = v["parent"].as_array().unwrap().iter().map(|x| x.as_i64().unwrap()).collect();
    let mut out = vec![Vec::new(); nstates];
    for (i, e) in edges.iter().enumerate() {
        out[e.s].push(i);
    }
    Graph { nstates, init, init_proj: v["init_proj"].clone(), edges, parent, out }
}

/// the real object under replay
pub trait Target {
    /// a fresh object in the state the graph's initial state describes
    fn fresh(&mut self);
    /// apply one operation; compare result / projection with the expectation; tags of mismatches
    fn apply(&mut self, op: &Value, expect: &Value) -> Vec<String>;
    /// the events executed on the current object, in trace format
    fn trace(&self) -> Vec<String>;
}

fn path_to(g: &Graph, s: usize) -> Vec<usize> {
    let mut p = Vec::new();
    let mut cur = s;
    while g.parent[cur] >= 0 {
        let ei = g.parent[cur] as usize;
        p.push(ei);
        cur = g.edges[ei].s;
    }
    p.reverse();
    p
}

fn report(edge: usize, tags: &[String], trace: &[String]) {
    let t: Vec<String> = tags.iter().map(|x| jstr(x)).collect();
    let l: Vec<String> = trace.iter().map(|x| jstr(x)).collect();
    println!("MISMATCH {{\"edge\":{},\"tags\":[{}],\"trace\":[{}]}}", edge, t.join(","), l.join(","));
}

pub fn run(g: &Graph, target: &mut dyn Target, seed: u64, thorough: bool) -> i32 {
    let mut stats = Stats::new();
    let mut mismatches = 0;
    // 1. every edge once, reached by the shortest path
    for (ei, e) in g.edges.iter().enumerate() {
        target.fresh();
        let mut bad = false;
        for pe in path_to(g, e.s) {
            let pe_ = &g.edges[pe];
            let tags = target.apply(&pe_.op, &pe_.p);
            if !tags.is_empty() {
                // reported when that edge itself is replayed
                bad = true;
                break;
            }
        }
        if bad {
            continue;
        }
        let tags = target.apply(&e.op, &e.p);
        stats.add("edges", 1);
        if !tags.is_empty() {
            mismatches += 1;
            if mismatches <= 50 {
                report(ei, &tags, &target.trace());
            }
        }
    }
    // 2. every pair of consecutive edges (e, f): a divergence of unobservable state caused by e
    //    (e.g. an edge latch) is revealed by the observing operation f that follows it
    let budget: u64 = if thorough { 60_000_000 } else { 6_000_000 };
    let mut spent: u64 = 0;
    'pairs: for (ei, e) in g.edges.iter().enumerate() {
        if g.out[e.t].is_empty() {
            continue;
        }
        let path = path_to(g, e.s);
        for &fi in g.out[e.t].iter() {
            if spent > budget {
                stats.add("pair_budget_exhausted", 1);
                break 'pairs;
            }
            target.fresh();
            let mut bad = false;
            for &pe in path.iter() {
                if !target.apply(&g.edges[pe].op, &g.edges[pe].p).is_empty() {
                    bad = true;
                    break;
                }
            }
            spent += path.len() as u64 + 2;
            if bad || !target.apply(&e.op, &e.p).is_empty() {
                continue;
            }
            let f = &g.edges[fi];
            let tags = target.apply(&f.op, &f.p);
            stats.add("edge_pairs", 1);
            if !tags.is_empty() {
                mismatches += 1;
                if mismatches <= 50 {
                    report(ei, &tags, &target.trace());
                }
            }
        }
    }
    // 2b. small graphs: EVERY path from the initial state up to the largest depth that fits the budget
    //     (a path also ends in a state without successors), so that every history of that many calls is
    //     replayed, not only the pairs above (e.g. the glide dead band: every sequence of five set_time
    //     calls followed by the observing probe)
    {
        let max_paths: u64 = if thorough { 25_000_000 } else { 2_500_000 };
        // number of maximal paths of length <= d, by dynamic programming over the states
        let mut depth = 0usize;
        let mut cnt: Vec<u64> = vec![1; g.nstates]; // paths of remaining length 0
        for d in 1..=12usize {
            let mut next = vec![0u64; g.nstates];
            for st in 0..g.nstates {
                if g.out[st].is_empty() {
                    next[st] = 1;
                } else {
                    let mut n = 0u64;
                    for &ei in g.out[st].iter() {
                        n = n.saturating_add(cnt[g.edges[ei].t]);
                    }
                    next[st] = n;
                }
            }
            if next[g.init] > max_paths {
                break;
            }
            cnt = next;
            depth = d;
        }
        if depth >= 3 {
            // iterative depth-first enumeration; every path is executed on a fresh object
            let mut stack: Vec<(usize, usize)> = vec![(g.init, 0)]; // (state, next out-edge index)
            let mut path: Vec<usize> = Vec::new();
            loop {
                let (st, k) = match stack.last() {
                    Some(&x) => x,
                    None => break,
                };
                let at_end = path.len() == depth || g.out[st].is_empty();
                if at_end || k >= g.out[st].len() {
                    if at_end && k == 0 {
                        target.fresh();
                        stats.add("paths", 1);
                        for (i, &ei) in path.iter().enumerate() {
                            let e = &g.edges[ei];
                            let tags = target.apply(&e.op, &e.p);
                            if !tags.is_empty() {
                                // a divergence on an earlier step is reported by the path that ends there
                                if i + 1 == path.len() {
                                    mismatches += 1;
                                    if mismatches <= 50 {
                                        report(ei, &tags, &target.trace());
                                    }
                                }
                                break;
                            }
                        }
                    }
                    stack.pop();
                    path.pop();
                    continue;
                }
                stack.last_mut().unwrap().1 = k + 1;
                let ei = g.out[st][k];
                path.push(ei);
                stack.push((g.edges[ei].t, 0));
            }
            stats.add("path_depth", depth as i64);
        }
    }
    // 3. random walks (longer histories)
    let mut rng = Rng::new(seed ^ 0x77616c6b);
    let walks = if thorough { 4000 } else { 600 };
    let len = if thorough { 120 } else { 60 };
    for _ in 0..walks {
        target.fresh();
        let mut cur = g.init;
        stats.add("walks", 1);
        for _ in 0..len {
            if g.out[cur].is_empty() {
                break;
            }
            let ei = *rng.pick(&g.out[cur]);
            let e = &g.edges[ei];
            let tags = target.apply(&e.op, &e.p);
            stats.add("walk_steps", 1);
            if !tags.is_empty() {
                mismatches += 1;
                if mismatches <= 50 {
                    report(ei, &tags, &target.trace());
                }
                break;
            }
            cur = e.t;
        }
    }
    stats.add("states", g.nstates as i64);
    stats.print();
    if mismatches > 0 {
        1
    } else {
        0
    }
}
