//! ADSR: trace recording drivers and trace re-execution.
use crate::exact::*;
use crate::util::*;
use std::collections::HashSet;
use synth_utils::adsr::{Adsr, Input, State, SustainLevel, TimePeriod};

pub const RATES: [f32; 8] = [100.0, 128.0, 999.0, 1000.0, 44100.0, 48000.0, 96000.0, 192000.0];

/// Runs a COPY of a new envelope through one note to see whether its power-on times are those of the code as
/// first pinned (ideal increment `fl` per tick in every timed phase) and what its power-on sustain level is.
fn power_on_probe(a: &Adsr, fl: i64) -> (bool, f32) {
    let m = 1i64 << 24;
    let near = |inc: i64| -> bool { fl < m && (inc - fl).abs() <= fl / (1 << 21) + 2 };
    let mut c = *a;
    let mut ok = true;
    c.gate_on();
    // first tick of the attack
    c.tick();
    let ph = phase_num(c.verif_state());
    ok &= if fl >= m { ph != 1 } else { ph == 1 && near(c.verif_phase_bits() as i64) };
    // on to the decay (bounded: 21 s worth of ticks at 192 kHz)
    let mut guard = 0u32;
    while phase_num(c.verif_state()) == 1 && guard < 4_100_000 {
        c.tick();
        guard += 1;
    }
    if phase_num(c.verif_state()) == 2 {
        // the tick that ended the attack left the decay at position 0: one more tick shows its increment
        c.tick();
        let ph = phase_num(c.verif_state());
        ok &= if fl >= m { ph != 2 } else { ph == 2 && near(c.verif_phase_bits() as i64) };
    }
    let mut guard = 0u32;
    while phase_num(c.verif_state()) == 2 && guard < 4_100_000 {
        c.tick();
        guard += 1;
    }
    let s0 = if phase_num(c.verif_state()) == 3 { c.value() } else { 1.0 };
    ok &= phase_num(c.verif_state()) == 3 && s0 == 1.0;
    c.gate_off();
    c.tick();
    let ph = phase_num(c.verif_state());
    ok &= if fl >= m { ph != 4 } else { ph == 4 && near(c.verif_phase_bits() as i64) };
    (ok, s0)
}

pub struct Session<'a> {
    env: Option<Adsr>,
    pub fs: f32,
    out: &'a mut Out,
    pub stats: Stats,
    pub alive: bool,
    pub cells: HashSet<u32>, // (phase, cell) pairs visited by logged ticks
}

fn phase_num(s: State) -> u32 {
    match s {
        State::AtRest => 0,
        State::Attack => 1,
        State::Decay => 2,
        State::Sustain => 3,
        State::Release => 4,
    }
}

fn obs(a: &Adsr) -> (u32, u32, String) {
    let ph = phase_num(a.verif_state());
    let acc = a.verif_phase_bits().min(1 << 30);
    let v = a.value();
    (ph, acc, format!("\"ph\":{},\"a\":{},\"k\":{},\"q\":{}", ph, acc, key(v), q24(v)))
}

impl<'a> Session<'a> {
    pub fn new(out: &'a mut Out) -> Self {
        Session { env: None, fs: 0.0, out, stats: Stats::new(), alive: false, cells: HashSet::new() }
    }
    fn panic_event(&mut self, during: &str, msg: &str) {
        self.out.line(&format!("{{\"op\":\"panic\",\"where\":\"adsr\",\"during\":{},\"msg\":{}}}", jstr(during), jstr(msg)));
        self.stats.add("panics", 1);
        self.alive = false;
        self.env = None;
    }
    pub fn start(&mut self, fs: f32) {
        self.fs = fs;
        self.stats.add("runs", 1);
        let t0: f32 = TimePeriod::from(0.001f32).into();
        let (fl, fr) = ratio_fix16(&[], &[t0, fs], 24).unwrap_or((0, 0));
        match guarded(|| {
            let a = Adsr::new(fs);
            let o = obs(&a).2;
            (a, o, power_on_probe(&a, fl))
        }) {
            Ok((a, o, (as_built, s0))) => {
                self.env = Some(a);
                self.alive = true;
                // the power-on times (1 ms each as first pinned) are stated nowhere: if a copy of the new
                // envelope does not run at them, the specification is told that they are unknown (fl = -1)
                let (fl, fr) = if as_built { (fl, fr) } else { (-1, 0) };
                self.out.line(&format!(
                    "{{\"op\":\"new\",\"fs\":{},\"fl\":{},\"fr\":{},\"s0\":{},\"sk0\":{},{}}}",
                    key(fs), fl, fr, q24(s0), key(s0), o
                ));
            }
            Err(m) => {
                self.out.line(&format!(
                    "{{\"op\":\"new\",\"fs\":{},\"fl\":{},\"fr\":{},\"ph\":0,\"a\":0,\"k\":0,\"q\":0}}",
                    key(fs), fl, fr
                ));
                self.panic_event("new", &m)
            }
        }
    }
    pub fn phase(&self) -> u32 {
        self.env.as_ref().map(|a| phase_num(a.verif_state())).unwrap_or(0)
    }
    pub fn acc(&self) -> u32 {
        self.env.as_ref().map(|a| a.verif_phase_bits()).unwrap_or(0)
    }
    fn op(&mut self, name: &str, extra: &str, f: impl FnOnce(&mut Adsr)) {
        if !self.alive {
            return;
        }
        let a = self.env.as_mut().unwrap();
        match guarded(|| {
            f(a);
            obs(a)
        }) {
            Ok((ph, acc, o)) => {
                self.out.line(&format!("{{\"op\":\"{}\"{},{}}}", name, extra, o));
                if name == "t" {
                    self.cells.insert(ph * 1024 + (acc >> 14).min(1023));
                }
            }
            Err(m) => self.panic_event(name, &m),
        }
    }
    pub fn tick(&mut self) {
        self.op("t", "", |a| a.tick());
        self.stats.add("ticks", 1);
    }
    pub fn gate_on(&mut self) {
        self.op("on", "", |a| a.gate_on());
        self.stats.add("gate_on", 1);
    }
    pub fn gate_off(&mut self) {
        self.op("off", "", |a| a.gate_off());
        self.stats.add("gate_off", 1);
    }
    /// n unlogged ticks; the caller guarantees they stay inside the current phase
    pub fn skip(&mut self, n: u32) {
        if n == 0 {
            return;
        }
        let extra = format!(",\"n\":{}", n);
        self.op("skip", &extra, |a| {
            for _ in 0..n {
                a.tick();
            }
        });
        self.stats.add("skipped_ticks", n as i64);
    }
    pub fn set_time(&mut self, w: char, x: f32) {
        if !self.alive {
            return;
        }
        let conv = guarded(|| f32::from(TimePeriod::from(x)));
        let t = match conv {
            Ok(t) => t,
            Err(m) => return self.panic_event("TimePeriod::from", &m),
        };
        let (fl, fr) = match if t.is_finite() && t > 0.0 { ratio_fix16(&[], &[t, self.fs], 24) } else { None } {
            Some(p) => p,
            None => (1 << 30, 0), // converted time is zero/garbage: no finite ideal step
        };
        let extra = format!(",\"w\":\"{}\",\"arg\":{},\"ck\":{},\"fl\":{},\"fr\":{}", w, key(x), key(t), fl, fr);
        self.op("si", &extra, |a| {
            a.set_input(match w {
                'a' => Input::Attack(x.into()),
                'd' => Input::Decay(x.into()),
                _ => Input::Release(x.into()),
            })
        });
        self.stats.add("set_time", 1);
    }
    pub fn set_sustain(&mut self, x: f32) {
        if !self.alive {
            return;
        }
        let s = match guarded(|| f32::from(SustainLevel::from(x))) {
            Ok(s) => s,
            Err(m) => return self.panic_event("SustainLevel::from", &m),
        };
        let extra = format!(",\"w\":\"s\",\"arg\":{},\"ck\":{},\"cq\":{}", key(x), key(s), q24(s));
        self.op("si", &extra, |a| a.set_input(Input::Sustain(x.into())));
        self.stats.add("set_sustain", 1);
    }
    /// tick until the phase changes (or `max` ticks), logging every tick
    pub fn run_phase(&mut self, max: u64) -> u64 {
        let p = self.phase();
        let mut n = 0;
        while self.alive && self.phase() == p && n < max {
            self.tick();
            n += 1;
        }
        n
    }
    /// tick through a long phase: log `edge` ticks, skip, log `edge` ticks around the end
    pub fn run_phase_sparse(&mut self, edge: u32, est_inc: u64) {
        let p = self.phase();
        if !(p == 1 || p == 2 || p == 4) {
            return;
        }
        for _ in 0..edge {
            if !self.alive || self.phase() != p {
                return;
            }
            self.tick();
        }
        // skip while far from the end (margin of 4*edge increments); bounded, and given up as soon as
        // the accumulator stops advancing (an envelope that makes no progress is reported by the
        // specification from the logged ticks, the harness must not wait for it)
        let mut rounds = 0u32;
        let mut last_acc = u64::MAX;
        loop {
            if !self.alive || self.phase() != p {
                return;
            }
            let acc = self.acc() as u64;
            rounds += 1;
            if rounds > 600 || acc == last_acc {
                for _ in 0..3 {
                    self.tick();
                }
                return;
            }
            last_acc = acc;
            let margin = est_inc * (4 * edge as u64 + 8);
            if acc + margin >= (1 << 24) || est_inc == 0 {
                break;
            }
            let room = ((1u64 << 24) - margin - acc) / est_inc.max(1);
            let n = room.min(200_000) as u32;
            if n < 2 {
                break;
            }
            self.skip(n);
            // a few logged ticks between skips (adjacent-tick checks at random positions)
            for _ in 0..3 {
                if self.alive && self.phase() == p {
                    self.tick();
                }
            }
        }
        let mut guard = 0u64;
        while self.alive && self.phase() == p && guard < 40 * edge as u64 + 1000 {
            self.tick();
            guard += 1;
        }
    }
}

fn pick_time(rng: &mut Rng) -> f32 {
    match rng.below(12) {
        0 => 0.001,
        1 => 20.0,
        2 => (rng.unit() * 0.002) as f32,         // below the lower clamp
        3 => (20.0 + rng.unit() * 50.0) as f32,   // above the upper clamp
        4 => -1.0,
        5 => *rng.pick(&[f32::NAN, f32::INFINITY, f32::NEG_INFINITY, -0.0, 0.0]),
        _ => rng.log_uniform(0.0005, 40.0) as f32,
    }
}

fn pick_sustain(rng: &mut Rng) -> f32 {
    match rng.below(8) {
        0 => 0.0,
        1 => 1.0,
        2 => -0.3,
        3 => 1.7,
        4 => *rng.pick(&[f32::NAN, f32::INFINITY, f32::NEG_INFINITY, -0.0]),
        _ => rng.unit() as f32,
    }
}

fn est_inc(t: f32, fs: f32) -> u64 {
    let tc: f32 = TimePeriod::from(t).into();
    if !(tc.is_finite() && tc > 0.0) {
        return 0;
    }
    (16777216.0f64 / (tc as f64 * fs as f64)) as u64
}

/// random envelopes: (fs, times, sustain) over the whole plane, gate events at random positions,
/// re-trigger bursts, parameter changes in mid-phase
pub fn drive_random(s: &mut Session, rng: &mut Rng, runs: usize) {
    for _ in 0..runs {
        let fs = if rng.chance(1, 5) { rng.log_uniform(100.0, 192000.0) as f32 } else { *rng.pick(&RATES) };
        s.start(fs);
        let mut times = [0.001f32; 3];
        for (i, w) in ['a', 'd', 'r'].iter().enumerate() {
            if rng.chance(5, 6) {
                // keep most phases short enough to be logged completely
                let t = if rng.chance(3, 4) {
                    (rng.log_uniform(0.3, 1500.0) / fs as f64) as f32
                } else {
                    pick_time(rng)
                };
                times[i] = t;
                s.set_time(*w, t);
            }
        }
        if rng.chance(4, 5) {
            s.set_sustain(pick_sustain(rng));
        }
        let cycles = 1 + rng.below(3);
        for _ in 0..cycles {
            s.gate_on();
            // attack / decay with possible interruptions
            let mut budget = 6000u64;
            while s.alive && budget > 0 && (s.phase() == 1 || s.phase() == 2) {
                let p = s.phase();
                let t = times[(p - 1) as usize];
                let inc = est_inc(t, fs);
                let n_est = (16777216 / inc.max(1)).max(1);
                if n_est > 3000 {
                    s.run_phase_sparse(60, inc);
                    budget = budget.saturating_sub(400);
                } else {
                    // stop at a random point for an event, or run to the end
                    let stop = if rng.chance(1, 2) { rng.below(n_est + 2) } else { n_est + 10 };
                    let mut n = 0;
                    while s.alive && s.phase() == p && n < stop.min(3 * n_est + 10) {
                        s.tick();
                        n += 1;
                    }
                    budget = budget.saturating_sub(n + 1);
                    if s.phase() == p && n >= 3 * n_est + 10 {
                        // the phase did not end although three times its duration has passed
                        break;
                    }
                    if s.phase() == p {
                        match rng.below(6) {
                            0 => {
                                s.gate_on(); // ignored in attack, re-trigger in decay
                            }
                            1 => {
                                let w = ['a', 'd', 'r'][rng.below(3) as usize];
                                // a new time, now and then bit-identical to one of the current times
                                let t2 = if rng.chance(1, 3) {
                                    times[rng.below(3) as usize]
                                } else {
                                    (rng.log_uniform(0.3, 1500.0) / fs as f64) as f32
                                };
                                times[match w { 'a' => 0, 'd' => 1, _ => 2 }] = t2;
                                s.set_time(w, t2);
                            }
                            2 => {
                                if rng.chance(1, 2) {
                                    s.set_sustain(pick_sustain(rng))
                                } else {
                                    // a sustain level swept in small steps, one per tick (a knob being turned)
                                    let mut lv = pick_sustain(rng).clamp(0.05, 0.95);
                                    let d = (rng.log_uniform(2e-4, 8e-3) * if rng.chance(1, 2) { 1.0 } else { -1.0 }) as f32;
                                    for _ in 0..(8 + rng.below(30)) {
                                        lv = (lv + d).clamp(0.0, 1.0);
                                        s.set_sustain(lv);
                                        s.tick();
                                    }
                                }
                            }
                            3 => {
                                s.gate_off();
                                break;
                            }
                            4 => {
                                // burst of re-triggers
                                for _ in 0..(1 + rng.below(4)) {
                                    s.gate_off();
                                    for _ in 0..rng.below(4) {
                                        s.tick();
                                    }
                                    if rng.chance(1, 2) {
                                        // a time changed while its phase is not running (possibly with no tick
                                        // before the phase is entered again)
                                        let w = ['a', 'd', 'r'][rng.below(3) as usize];
                                        let t2 = (rng.log_uniform(0.3, 1500.0) / fs as f64) as f32;
                                        times[match w { 'a' => 0, 'd' => 1, _ => 2 }] = t2;
                                        s.set_time(w, t2);
                                    }
                                    s.gate_on();
                                    for _ in 0..rng.below(4) {
                                        s.tick();
                                    }
                                }
                            }
                            _ => {}
                        }
                    }
                }
            }
            // sustain for a while
            if s.phase() == 3 {
                for _ in 0..(1 + rng.below(6)) {
                    s.tick();
                }
                if rng.chance(1, 3) {
                    s.set_sustain(pick_sustain(rng));
                    s.tick();
                    s.tick();
                }
                if rng.chance(1, 6) {
                    s.gate_on();
                    continue;
                }
            }
            s.gate_off();
            if s.phase() == 4 {
                let inc = est_inc(times[2], fs);
                let n_est = (16777216 / inc.max(1)).max(1);
                if n_est > 3000 {
                    s.run_phase_sparse(60, inc);
                } else if rng.chance(1, 3) {
                    let stop = rng.below(n_est + 1);
                    for _ in 0..stop {
                        if s.phase() == 4 {
                            s.tick();
                        }
                    }
                } else {
                    s.run_phase(3 * n_est + 10);
                }
            }
            for _ in 0..2 {
                s.tick();
            }
            if rng.chance(1, 4) {
                s.gate_off(); // ignored at rest / in release
                s.tick();
            }
        }
    }
}

/// phase durations on the (fs, T) plane: exact divisors of 2^24, phases shorter than a sample,
/// the clamps, 999 Hz with the default 1 ms
pub fn drive_durations(s: &mut Session, rng: &mut Rng, runs: usize) {
    let mut cases: Vec<(f32, f32)> = vec![
        (100.0, 0.01), (100.0, 0.005), (100.0, 0.02), (128.0, 0.0078125), (200.0, 0.005), (256.0, 0.00390625),
        (999.0, 0.001), (1000.0, 0.001), (1000.0, 0.002), (1024.0, 0.0009765625), (1024.0, 1.0), (1024.0, 16.0),
        (4096.0, 0.001953125), (100.0, 0.001), (192000.0, 20.0), (192000.0, 0.001), (44100.0, 0.001),
        (48000.0, 20.0), (100.0, 20.0), (512.0, 0.0625), (65536.0, 0.0078125),
    ];
    for _ in 0..runs {
        let fs = if rng.chance(1, 2) { *rng.pick(&RATES) } else { rng.log_uniform(100.0, 192000.0) as f32 };
        // T*fs in (0, 4], or an exact divisor, or anywhere
        let t = match rng.below(4) {
            0 => (rng.unit() * 4.0 / fs as f64) as f32,
            1 => ((1u64 << rng.below(12)) as f64 / fs as f64) as f32,
            2 => (rng.below(40) as f64 / fs as f64) as f32,
            _ => rng.log_uniform(0.001, 20.0) as f32,
        };
        cases.push((fs, t));
    }
    for (fs, t) in cases {
        s.start(fs);
        if t != 0.001 || rng.chance(1, 2) {
            s.set_time('a', t);
            s.set_time('d', t);
            s.set_time('r', t);
        }
        s.set_sustain(0.5);
        let inc = est_inc(t, fs);
        let n_est = (16777216 / inc.max(1)).max(1);
        s.gate_on();
        for ph in [1u32, 2] {
            if s.phase() == ph {
                if n_est > 3000 {
                    s.run_phase_sparse(40, inc);
                } else {
                    s.run_phase(3 * n_est + 10);
                }
            }
        }
        s.tick();
        s.gate_off();
        if s.phase() == 4 {
            if n_est > 3000 {
                s.run_phase_sparse(40, inc);
            } else {
                s.run_phase(3 * n_est + 10);
            }
        }
        s.tick();
        s.stats.add("duration_cases", 1);
    }
}

/// sustain level exactly at a bound (0.0 / 1.0) through complete attack and decay phases of several lengths,
/// then moved while the gate is still held, a re-trigger from exactly full scale, a release from exactly zero
pub fn drive_sustain_bounds(s: &mut Session, rng: &mut Rng) {
    for &fs in [100.0f32, 1000.0, 48000.0, 192000.0].iter() {
        for &level in [0.0f32, 1.0, -0.0, 1.0e-30].iter() {
            for ticks in [3u64, 40, 1200] {
                if ticks > 100 && (fs < 500.0 || fs > 100_000.0 || level.to_bits() > 0x3f80_0000) {
                    continue;
                }
                s.start(fs);
                let t = (ticks as f64 / fs as f64) as f32;
                s.set_time('a', t);
                s.set_time('d', t);
                s.set_time('r', t);
                s.set_sustain(level);
                s.gate_on();
                let mut guard = 0;
                while s.alive && s.phase() != 3 && guard < 3 * ticks + 50 {
                    s.tick();
                    guard += 1;
                }
                for _ in 0..3 {
                    s.tick();
                }
                // the gate is still held: a new sustain level is taken up
                s.set_sustain(0.6);
                s.tick();
                s.tick();
                s.set_sustain(level);
                s.tick();
                if ticks == 40 {
                    // the level is moved and the key released before the next tick: the release starts from
                    // what is being output, not from the level just requested
                    s.set_sustain(0.3);
                    s.gate_off();
                    for _ in 0..5 {
                        s.tick();
                    }
                    s.gate_on();
                    for _ in 0..(2 * ticks + 5) {
                        s.tick();
                    }
                    s.set_sustain(0.9);
                }
                if rng.chance(1, 2) {
                    // re-trigger from the sustain level (exactly 1.0 or 0.0)
                    s.gate_on();
                    for _ in 0..(ticks / 2 + 2) {
                        s.tick();
                    }
                }
                s.gate_off();
                let mut guard = 0;
                while s.alive && s.phase() != 0 && guard < 3 * ticks + 50 {
                    s.tick();
                    guard += 1;
                }
                s.tick();
            }
        }
    }
}

/// a time changed in the middle of its own phase to a value that is bit-identical to another current
/// time (and much longer / shorter than the old one): only the remaining part of the phase is rescaled
pub fn drive_retime(s: &mut Session, rng: &mut Rng) {
    let names = ['a', 'd', 'r'];
    for &fs in [1000.0f32, 48000.0, 44100.0].iter() {
        for w in 0..3usize {
            for other in 0..3usize {
                for longer in [true, false] {
                    let short = (20.0 + rng.below(20) as f64) / fs as f64;
                    let long = (300.0 + rng.below(300) as f64) / fs as f64;
                    let (t_w, t_other) = if longer { (short, long) } else { (long, short) };
                    s.start(fs);
                    for k in 0..3usize {
                        let t = if k == w { t_w } else if k == other { t_other } else { (60.0 / fs as f64) as f64 };
                        s.set_time(names[k], t as f32);
                    }
                    s.set_sustain(0.4);
                    s.gate_on();
                    // get into phase w
                    if w == 1 {
                        s.run_phase(4000);
                    }
                    if w == 2 {
                        s.run_phase(4000);
                        s.run_phase(4000);
                        s.tick();
                        s.gate_off();
                    }
                    for _ in 0..(2 + rng.below(6)) {
                        s.tick();
                    }
                    // the new value is the other time, bit for bit
                    let t_new = if other == w { t_other } else { t_other };
                    s.set_time(names[w], t_new as f32);
                    s.run_phase(4000);
                    s.tick();
                }
            }
        }
    }
}

/// a time control that is turned slowly while its phase runs: the time is re-sent before every tick and moves
/// by about 1e-7 s per request (far below anything a "has it changed?" shortcut would notice) for thousands
/// of ticks; the sum of the requests is a change of several counts in the per-tick increment, and the phase
/// must still end when the increments in force add up to the counter range
pub fn drive_creep(s: &mut Session, _rng: &mut Rng) {
    let names = ['a', 'd', 'r'];
    for &(fs, t0, dt, n) in [(1000.0f32, 2.0f64, -1.0e-7f64, 1500u32), (1000.0, 1.5, 1.1e-7, 1400), (100.0, 19.0, -1.0e-6, 1800)].iter() {
        for w in 0..3usize {
            s.start(fs);
            for k in 0..3usize {
                s.set_time(names[k], if k == w { t0 as f32 } else { (3.0 / fs as f64) as f32 });
            }
            s.set_sustain(0.5);
            s.gate_on();
            if w >= 1 {
                s.run_phase(4000);
            }
            if w == 2 {
                s.run_phase(4000);
                s.tick();
                s.gate_off();
            }
            let mut t = t0;
            for _ in 0..n {
                t += dt;
                s.set_time(names[w], t as f32);
                s.tick();
            }
            s.run_phase(4000);
            s.tick();
        }
    }
}

/// a slow phase cut short from inside its first table cell: after 1 .. 6 ticks of a phase of several thousand
/// ticks its time is set to one tick or less, so the very next tick ends it; the following phase must start at
/// its exact level and follow ITS curve from the beginning (whatever was prepared for the first cell of the
/// phase that was cut short)
pub fn drive_cut_short(s: &mut Session, rng: &mut Rng) {
    let names = ['a', 'd', 'r'];
    for &fs in [100.0f32, 1000.0, 1000.0, 48000.0].iter() {
        for w in 0..3usize {
            for &sus in [0.3f32, 0.0, 1.0].iter() {
                s.start(fs);
                let slow = ((3000.0 + rng.below(3000) as f64) / fs as f64) as f32;
                for k in 0..3usize {
                    s.set_time(names[k], if k == w { slow } else { (50.0 / fs as f64) as f32 });
                }
                s.set_sustain(sus);
                s.gate_on();
                if w >= 1 {
                    s.run_phase(4000);
                }
                if w == 2 {
                    s.run_phase(4000);
                    s.tick();
                    s.gate_off();
                }
                for _ in 0..(1 + rng.below(6)) {
                    s.tick();
                }
                let cut = *rng.pick(&[1.0f64, 0.5, 0.9, 0.001]);
                s.set_time(names[w], (cut / fs as f64) as f32);
                s.tick();
                s.tick();
                // the phase after it, tick by tick
                s.run_phase(200);
                s.tick();
                if w == 0 {
                    s.gate_off();
                    s.run_phase(200);
                    s.tick();
                }
            }
        }
    }
}

/// bursts of parameter writes while the envelope holds (sustaining or at rest): 250 .. 260 and 508 .. 516
/// time writes between the end of one timed phase and the start of the next, with and without ticks in
/// between, so that a wrapping 8-bit "parameters changed" stamp meets every offset; the phase that follows
/// must run at ITS time (the times differ by a factor of 8 or more)
pub fn drive_write_bursts(s: &mut Session, rng: &mut Rng) {
    let names = ['a', 'd', 'r'];
    let counts: Vec<u32> = (250..=260).chain(508..=516).collect();
    for (ci, &n) in counts.iter().enumerate() {
        for at_rest in [false, true] {
            let fs = if ci % 2 == 0 { 1000.0f32 } else { 48000.0 };
            s.start(fs);
            let t_short = (40.0 / fs as f64) as f32;
            let t_long = (400.0 / fs as f64) as f32;
            s.set_time('a', if at_rest { t_long } else { t_short });
            s.set_time('d', t_short);
            s.set_time('r', if at_rest { t_short } else { t_long });
            s.set_sustain(0.5);
            s.gate_on();
            s.run_phase(4000);
            s.run_phase(4000);
            if at_rest {
                s.tick();
                s.gate_off();
                s.run_phase(4000);
            }
            s.tick();
            // the burst: the values written do not matter (each time is written back to what it was)
            let with_ticks = rng.chance(1, 2);
            for j in 0..n {
                let w = (j % 3) as usize;
                let t = match (w, at_rest) {
                    (0, true) => t_long,
                    (2, false) => t_long,
                    _ => t_short,
                };
                s.set_time(names[w], t);
                if with_ticks && j % 7 == 0 {
                    s.tick();
                }
            }
            if at_rest {
                s.gate_on();
            } else {
                s.gate_off();
            }
            s.run_phase(4000);
            s.tick();
        }
    }
}

/// every cell of every curve: increments that visit all 1024 cells, several start levels
pub fn drive_cells(s: &mut Session, rng: &mut Rng, thorough: bool) {
    // inc = 1024 exactly (fs = 1024 Hz, T = 16 s): 16 logged ticks per cell
    let levels: Vec<f32> = if thorough { vec![1.0, 0.0, 0.3, 0.75, 0.5] } else { vec![1.0, 0.4] };
    for (i, &sus) in levels.iter().enumerate() {
        s.start(1024.0);
        for w in ['a', 'd', 'r'] {
            s.set_time(w, 16.0);
        }
        s.set_sustain(sus);
        s.gate_on();
        s.run_phase(20000);
        s.run_phase(20000);
        s.tick();
        s.gate_off();
        if i % 2 == 1 {
            // re-trigger from the middle of the release: attack from a non-zero level
            for _ in 0..(2000 + rng.below(6000)) {
                s.tick();
            }
            s.gate_on();
            s.run_phase(20000);
            for _ in 0..(1000 + rng.below(4000)) {
                s.tick();
            }
            s.gate_off();
        }
        s.run_phase(20000);
        s.tick();
    }
    // the slowest envelope (20 s at 192 kHz, inc = 4): adjacent ticks around every cell border
    let fs = 192000.0f32;
    s.start(fs);
    for w in ['a', 'd', 'r'] {
        s.set_time(w, 20.0);
    }
    s.set_sustain(0.25);
    let inc = est_inc(20.0, fs).max(1);
    let per_cell = (16384 / inc) as u32;
    s.gate_on();
    for ph in [1u32, 2, 4] {
        if ph == 4 {
            s.tick();
            s.gate_off();
        }
        let borders = if thorough { 1023 } else { 255 };
        let stride = 1023 / borders;
        let mut cell = 0u32;
        while s.alive && s.phase() == ph && cell < 1023 {
            // skip to just before the next visited border
            let target = ((cell + stride) as u64) * 16384;
            let acc = s.acc() as u64;
            if target > acc + 16 * inc {
                let n = ((target - acc) / inc).saturating_sub(8) as u32;
                s.skip(n.min(per_cell * stride + 16));
            }
            for _ in 0..16 {
                if s.phase() == ph {
                    s.tick();
                }
            }
            cell = (s.acc() >> 14).max(cell + 1);
        }
        s.run_phase_sparse(30, inc);
    }
    s.tick();
}

/// range end points of every argument (C17): finite values of any magnitude for times and sustain,
/// the two ends of the sample-rate range, arbitrary call orders
pub fn drive_extreme(s: &mut Session, rng: &mut Rng, runs: usize) {
    let xs: [f32; 16] = [
        0.0, -0.0, f32::MIN_POSITIVE, 1e-45, -1e-45, 1e-10, 0.001, 0.00099999, 20.0, 20.000002, 1e10, f32::MAX, f32::MIN, -1.0,
        1.0, 0.5,
    ];
    let rates: [f32; 6] = [100.0, 100.00001, 191999.98, 192000.0, 44100.0, 12345.678];
    for _ in 0..runs {
        let fs = *rng.pick(&rates);
        s.start(fs);
        for _ in 0..(20 + rng.below(40)) {
            match rng.below(9) {
                0 => s.set_time('a', *rng.pick(&xs)),
                1 => s.set_time('d', *rng.pick(&xs)),
                2 => s.set_time('r', *rng.pick(&xs)),
                3 => s.set_sustain(*rng.pick(&xs)),
                4 => s.gate_on(),
                5 => s.gate_off(),
                _ => {
                    let p = s.phase();
                    if p == 1 || p == 2 || p == 4 {
                        // a bounded number of ticks; long phases are skipped through
                        let before = s.acc() as u64;
                        s.tick();
                        let inc = (s.acc() as u64).saturating_sub(before).max(1);
                        if s.phase() == p && (16777216 / inc) > 200 {
                            s.run_phase_sparse(10, inc);
                        } else {
                            s.run_phase(400);
                        }
                    } else {
                        s.tick();
                    }
                }
            }
        }
    }
}

pub fn rerun(lines: &[serde_json::Value], out: &mut Out) {
    let mut s = Session::new(out);
    for e in lines {
        match e["op"].as_str().unwrap_or("") {
            "new" => s.start(unkey(e["fs"].as_i64().unwrap())),
            "t" => s.tick(),
            "on" => s.gate_on(),
            "off" => s.gate_off(),
            "skip" => s.skip(e["n"].as_u64().unwrap() as u32),
            "si" => {
                let x = unkey(e["arg"].as_i64().unwrap());
                match e["w"].as_str().unwrap() {
                    "s" => s.set_sustain(x),
                    w => s.set_time(w.chars().next().unwrap(), x),
                }
            }
            _ => {}
        }
    }
}

pub fn record(driver: &str, seed: u64, thorough: bool, out: &mut Out) -> Stats {
    let mut rng = Rng::new(seed ^ 0x6164_7372);
    let mut s = Session::new(out);
    match driver {
        "random" => drive_random(&mut s, &mut rng, if thorough { 2500 } else { 260 }),
        "durations" => {
            drive_durations(&mut s, &mut rng, if thorough { 1500 } else { 120 });
            drive_retime(&mut s, &mut rng);
            drive_sustain_bounds(&mut s, &mut rng);
            drive_creep(&mut s, &mut rng);
            drive_write_bursts(&mut s, &mut rng);
            drive_cut_short(&mut s, &mut rng);
        }
        "cells" => drive_cells(&mut s, &mut rng, thorough),
        "extreme" => drive_extreme(&mut s, &mut rng, if thorough { 400 } else { 60 }),
        _ => {
            eprintln!("unknown adsr driver {}", driver);
            std::process::exit(2)
        }
    }
    let n = s.cells.len() as i64;
    s.stats.add("distinct_phase_cells", n);
    s.stats
}

// ---------------------------------------------------------------------------------------------
// specification -> implementation: every transition of the bounded Adsr.tla graph on the real Adsr.
// Model: 5-bit accumulator (M = 32), increments that are powers of two.  Real: fs = 128 Hz and times
// (32 / step) / 128 s, for which the f32 increment is exactly step * 2^19, so the model accumulator is the
// real one >> 19.  Sustain s of Q = 4 is s / 4.  Phase and position are compared after every step, the
// output where the specification fixes it exactly (1.0 entering decay, the sustain level, 0.0 at rest).

pub struct GraphTarget {
    out: Out,
    env: Option<Adsr>,
    init: serde_json::Value,
    sustain_q: i64,
}

const GFS: f32 = 128.0;
const GSHIFT: u32 = 19;
const GQ: f32 = 4.0;

fn step_time(step: i64) -> f32 {
    (32.0 / step as f32) / GFS
}

impl GraphTarget {
    pub fn new(init_proj: &serde_json::Value) -> Self {
        GraphTarget { out: Out::memory(), env: None, init: init_proj.clone(), sustain_q: 4 }
    }
    fn log(&mut self, op: &str, extra: &str) {
        let o = obs(self.env.as_ref().unwrap()).2;
        self.out.line(&format!("{{\"op\":\"{}\"{},{}}}", op, extra, o));
    }
    fn set_time(&mut self, w: char, step: i64) {
        let x = step_time(step);
        let t: f32 = TimePeriod::from(x).into();
        let (fl, fr) = ratio_fix16(&[], &[t, GFS], 24).unwrap_or((0, 0));
        self.env.as_mut().unwrap().set_input(match w {
            'a' => Input::Attack(x.into()),
            'd' => Input::Decay(x.into()),
            _ => Input::Release(x.into()),
        });
        let extra = format!(",\"w\":\"{}\",\"arg\":{},\"ck\":{},\"fl\":{},\"fr\":{}", w, key(x), key(t), fl, fr);
        self.log("si", &extra);
    }
    fn set_sustain(&mut self, sq: i64) {
        let x = sq as f32 / GQ;
        self.sustain_q = sq;
        self.env.as_mut().unwrap().set_input(Input::Sustain(x.into()));
        let extra = format!(",\"w\":\"s\",\"arg\":{},\"ck\":{},\"cq\":{}", key(x), key(x), q24(x));
        self.log("si", &extra);
    }
}

impl crate::graphrun::Target for GraphTarget {
    fn fresh(&mut self) {
        self.out = Out::memory();
        let a = Adsr::new(GFS);
        let t0: f32 = TimePeriod::from(0.001f32).into();
        let (fl, fr) = ratio_fix16(&[], &[t0, GFS], 24).unwrap_or((0, 0));
        let o = obs(&a).2;
        self.out.line(&format!("{{\"op\":\"new\",\"fs\":{},\"fl\":{},\"fr\":{},{}}}", key(GFS), fl, fr, o));
        self.env = Some(a);
        // bring the parameters to the model's initial values: Proj = [phase, acc, val, a, d, r, S]
        let (ia, id, ir, is) = (self.init[3].as_i64().unwrap(), self.init[4].as_i64().unwrap(),
                                self.init[5].as_i64().unwrap(), self.init[6].as_i64().unwrap());
        self.set_time('a', ia);
        self.set_time('d', id);
        self.set_time('r', ir);
        self.set_sustain(is);
    }
    fn apply(&mut self, op: &serde_json::Value, p: &serde_json::Value) -> Vec<String> {
        let before = phase_num(self.env.as_ref().unwrap().verif_state());
        match op["op"].as_str().unwrap() {
            "tick" => {
                self.env.as_mut().unwrap().tick();
                self.log("t", "");
            }
            "on" => {
                self.env.as_mut().unwrap().gate_on();
                self.log("on", "");
            }
            "off" => {
                self.env.as_mut().unwrap().gate_off();
                self.log("off", "");
            }
            "set" => {
                let w = op["w"].as_str().unwrap().chars().next().unwrap();
                self.set_time(w, op["i"].as_i64().unwrap());
            }
            "sus" => self.set_sustain(op["s"].as_i64().unwrap()),
            other => {
                eprintln!("unknown adsr graph op {}", other);
                std::process::exit(2)
            }
        }
        let mut tags = Vec::new();
        let a = self.env.as_ref().unwrap();
        let want_phase = match p[0].as_str().unwrap() {
            "rest" => 0,
            "attack" => 1,
            "decay" => 2,
            "sustain" => 3,
            _ => 4,
        };
        let got_phase = phase_num(a.verif_state());
        if got_phase != want_phase {
            tags.push("C02:phase-order".to_string());
        }
        // the phase counter means something in the timed phases only (what it holds while sustaining
        // or at rest is the implementation's business)
        let acc = a.verif_phase_bits();
        let timed = want_phase == 1 || want_phase == 2 || want_phase == 4;
        if timed && ((acc >> GSHIFT) as i64 != p[1].as_i64().unwrap() || acc & ((1 << GSHIFT) - 1) != 0) {
            tags.push("C02:position".to_string());
        }
        if op["op"] == "tick" {
            let v = a.value();
            let s = self.sustain_q as f32 / GQ;
            if (before == 1 && got_phase == 2 && v != 1.0) || (got_phase == 3 && v != s) || (got_phase == 0 && v != 0.0) {
                tags.push("C01:end-level".to_string());
            }
            if !(0.0..=1.0).contains(&v) {
                tags.push("C01:range".to_string());
            }
        }
        tags
    }
    fn trace(&self) -> Vec<String> {
        self.out.mem.clone()
    }
}
