//! The wired voice: MonoMidiReceiver edges drive an Adsr (trace for Trace_Voice.tla).
use crate::util::*;
use synth_utils::adsr::{Adsr, Input, State};
use synth_utils::mono_midi_receiver::MonoMidiReceiver;

fn phase_num(s: State) -> u32 {
    match s {
        State::AtRest => 0,
        State::Attack => 1,
        State::Decay => 2,
        State::Sustain => 3,
        State::Release => 4,
    }
}

struct Voice {
    rx: MonoMidiReceiver,
    env: Adsr,
}

fn service(v: &mut Voice, out: &mut Out) {
    let r = v.rx.rising_gate();
    let f = v.rx.falling_gate();
    if r {
        v.env.gate_on();
    }
    if f {
        v.env.gate_off();
    }
    out.line(&format!("{{\"op\":\"poll\",\"r\":{},\"f\":{},\"ph\":{}}}", r, f, phase_num(v.env.verif_state())));
    v.env.tick();
    out.line(&format!("{{\"op\":\"tk\",\"ph\":{},\"k\":{}}}", phase_num(v.env.verif_state()), key(v.env.value())));
}

fn feed(v: &mut Voice, out: &mut Out, bytes: &[u8]) {
    for &b in bytes {
        v.rx.parse(b);
        out.line(&format!("{{\"op\":\"b\",\"b\":{},\"g\":{}}}", b, v.rx.gate()));
    }
}

pub fn run_script(out: &mut Out, c: u8, script: &[(u8, Vec<u8>)]) {
    // script items: (0, bytes) = MIDI bytes, (1, [n]) = n control-loop iterations
    out.line(&format!("{{\"op\":\"new\",\"c\":{}}}", c));
    let r = guarded(|| {
        // 128 Hz and times of exactly one sample: the f32 increment is exactly 2^24 (one tick per phase)
        let mut env = Adsr::new(128.0);
        env.set_input(Input::Attack(0.0078125f32.into()));
        env.set_input(Input::Decay(0.0078125f32.into()));
        env.set_input(Input::Release(0.0078125f32.into()));
        let mut v = Voice { rx: MonoMidiReceiver::new(c), env };
        let mut mem = Out::memory();
        for (k, data) in script {
            if *k == 0 {
                feed(&mut v, &mut mem, data);
            } else {
                for _ in 0..data[0] {
                    service(&mut v, &mut mem);
                }
            }
        }
        mem.mem
    });
    match r {
        Ok(lines) => {
            for l in lines {
                out.line(&l);
            }
        }
        Err(m) => out.line(&format!("{{\"op\":\"panic\",\"during\":\"voice\",\"msg\":{}}}", jstr(&m))),
    }
}

pub fn record(driver: &str, seed: u64, thorough: bool, out: &mut Out) -> Stats {
    let mut rng = Rng::new(seed ^ 0x766f_6963);
    let mut stats = Stats::new();
    if driver != "wired" {
        eprintln!("unknown voice driver {}", driver);
        std::process::exit(2)
    }
    for _ in 0..(if thorough { 3000 } else { 300 }) {
        let c = rng.below(16) as u8;
        let mut script: Vec<(u8, Vec<u8>)> = Vec::new();
        let mut held: Vec<u8> = Vec::new();
        for _ in 0..(10 + rng.below(40)) {
            match rng.below(10) {
                0..=2 if held.len() < 30 => {
                    let n = 40 + rng.below(12) as u8;
                    held.push(n);
                    script.push((0, vec![0x90 | c, n, 1 + rng.below(127) as u8]));
                }
                3..=4 => {
                    let n = if !held.is_empty() && rng.chance(3, 4) { *rng.pick(&held) } else { 40 + rng.below(12) as u8 };
                    held.retain(|x| *x != n);
                    if rng.chance(1, 2) {
                        script.push((0, vec![0x80 | c, n, 0]));
                    } else {
                        script.push((0, vec![0x90 | c, n, 0]));
                    }
                }
                5 => {
                    held.clear();
                    script.push((0, vec![0xB0 | c, 123, 0]));
                }
                _ => script.push((1, vec![1 + rng.below(5) as u8])),
            }
        }
        script.push((1, vec![6]));
        run_script(out, c, &script);
        stats.add("runs", 1);
    }
    stats
}

pub fn rerun(lines: &[serde_json::Value], out: &mut Out) {
    let mut c = 0u8;
    let mut script: Vec<(u8, Vec<u8>)> = Vec::new();
    let mut started = false;
    for e in lines {
        match e["op"].as_str().unwrap_or("") {
            "new" => {
                if started {
                    run_script(out, c, &script);
                    script.clear();
                }
                started = true;
                c = e["c"].as_u64().unwrap() as u8;
            }
            "b" => script.push((0, vec![e["b"].as_u64().unwrap() as u8])),
            "tk" => script.push((1, vec![1])),
            _ => {}
        }
    }
    if started {
        run_script(out, c, &script);
    }
}
