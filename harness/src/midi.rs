//! MIDI receiver: trace recording drivers, trace re-execution, graph replay.
use crate::util::*;
use std::collections::HashSet;
use synth_utils::mono_midi_receiver::{MonoMidiReceiver, NotePriority, RetriggerMode};

pub struct Session<'a> {
    rx: Option<MonoMidiReceiver>,
    out: &'a mut Out,
    pub stats: Stats,
    pub alive: bool,
    pub shapes: HashSet<u64>,
}

fn obs(rx: &MonoMidiReceiver) -> String {
    format!(
        "[{},{},{},{},{},{},{},{},{},{},{}]",
        rx.gate(),
        rx.note_num(),
        key(rx.velocity()),
        key(rx.pitch_bend()),
        key(rx.mod_wheel()),
        key(rx.volume()),
        key(rx.vcf_cutoff()),
        key(rx.vcf_resonance()),
        key(rx.portamento_time()),
        rx.portamento_enabled(),
        rx.sustain_enabled()
    )
}

impl<'a> Session<'a> {
    pub fn new(out: &'a mut Out) -> Self {
        Session { rx: None, out, stats: Stats::new(), alive: false, shapes: HashSet::new() }
    }

    fn panic_event(&mut self, during: &str, msg: &str) {
        self.out.line(&format!("{{\"op\":\"panic\",\"during\":{},\"msg\":{}}}", jstr(during), jstr(msg)));
        self.stats.add("panics", 1);
        self.alive = false;
        self.rx = None;
    }

    pub fn start(&mut self, c: u8, drv: &str) {
        match guarded(|| MonoMidiReceiver::new(c)) {
            Ok(rx) => {
                // the power-on controller state (stated nowhere; controller 121 restores it)
                let c7 = |v: f32| -> i64 { ((v as f64) * 127.0).round().clamp(0.0, 127.0) as i64 };
                let d = format!(
                    "[{},{},{},{},{},{},{}]",
                    c7(rx.mod_wheel()), c7(rx.volume()), c7(rx.vcf_cutoff()), c7(rx.vcf_resonance()),
                    c7(rx.portamento_time()), rx.portamento_enabled(), rx.sustain_enabled()
                );
                self.rx = Some(rx);
                self.alive = true;
                self.out.line(&format!("{{\"op\":\"new\",\"c\":{},\"drv\":{},\"d\":{}}}", c, jstr(drv), d));
                self.stats.add("runs", 1);
            }
            Err(m) => {
                self.out.line(&format!("{{\"op\":\"new\",\"c\":{},\"drv\":{}}}", c, jstr(drv)));
                self.panic_event("new", &m);
            }
        }
    }

    pub fn byte(&mut self, b: u8) {
        if !self.alive {
            return;
        }
        let rx = self.rx.as_mut().unwrap();
        match guarded(|| {
            rx.parse(b);
            obs(rx)
        }) {
            Ok(o) => {
                self.out.line(&format!("{{\"op\":\"b\",\"b\":{},\"o\":{}}}", b, o));
                self.stats.add("bytes", 1);
            }
            Err(m) => self.panic_event(&format!("parse({})", b), &m),
        }
    }

    pub fn bytes(&mut self, bs: &[u8]) {
        for &b in bs {
            self.byte(b);
        }
    }

    pub fn poll_r(&mut self) {
        if !self.alive {
            return;
        }
        let rx = self.rx.as_mut().unwrap();
        match guarded(|| rx.rising_gate()) {
            Ok(r) => {
                self.out.line(&format!("{{\"op\":\"pr\",\"r\":{}}}", r));
                self.stats.add("polls", 1);
            }
            Err(m) => self.panic_event("rising_gate", &m),
        }
    }

    pub fn poll_f(&mut self) {
        if !self.alive {
            return;
        }
        let rx = self.rx.as_mut().unwrap();
        match guarded(|| rx.falling_gate()) {
            Ok(r) => {
                self.out.line(&format!("{{\"op\":\"pf\",\"r\":{}}}", r));
                self.stats.add("polls", 1);
            }
            Err(m) => self.panic_event("falling_gate", &m),
        }
    }

    pub fn retrig(&mut self, m: bool) {
        if !self.alive {
            return;
        }
        let rx = self.rx.as_mut().unwrap();
        rx.set_retrigger_mode(if m { RetriggerMode::AllowRetrigger } else { RetriggerMode::NoRetrigger });
        self.out.line(&format!("{{\"op\":\"rt\",\"m\":{}}}", m));
    }

    pub fn prio(&mut self, p: &str) {
        if !self.alive {
            return;
        }
        let rx = self.rx.as_mut().unwrap();
        rx.set_note_priority(match p {
            "high" => NotePriority::High,
            "low" => NotePriority::Low,
            _ => NotePriority::Last,
        });
        self.out.line(&format!("{{\"op\":\"pri\",\"p\":{}}}", jstr(p)));
    }
}

impl<'a> Session<'a> {
    /// n repetitions of a call pattern.  After `head` repetitions written out in full, one more is
    /// written after a {"op":"mark"} event and every following repetition whose events are identical to
    /// it, line for line, is counted in one {"op":"rep","n":k} event (the trace specification checks
    /// that the marked repetition returned it to the state at the mark, so that the k repetitions are
    /// behaviours it has already accepted).  The first repetition that differs is written in full.
    pub fn repeat(&mut self, n: usize, head: usize, mut f: impl FnMut(&mut Self)) {
        let mut i = 0;
        while i < n.min(head) {
            f(self);
            i += 1;
        }
        if i >= n || !self.alive {
            return;
        }
        self.out.line("{\"op\":\"mark\"}");
        self.out.begin_capture();
        f(self);
        let pat = self.out.end_capture();
        self.out.emit_all(&pat);
        i += 1;
        self.repeat_like(&pat, n - i, f);
    }
    fn repeat_like(&mut self, pat: &[String], n: usize, mut f: impl FnMut(&mut Self)) {
        let mut same = 0u64;
        let mut i = 0;
        while i < n {
            self.out.begin_capture();
            f(self);
            let cur = self.out.end_capture();
            i += 1;
            if cur == pat {
                same += 1;
            } else {
                if same > 0 {
                    self.out.line(&format!("{{\"op\":\"rep\",\"n\":{}}}", same));
                    same = 0;
                }
                self.out.emit_all(&cur);
                while i < n {
                    f(self);
                    i += 1;
                }
            }
        }
        if same > 0 {
            self.out.line(&format!("{{\"op\":\"rep\",\"n\":{}}}", same));
        }
    }
}

/// sender with running status
struct Tx {
    last_status: u8,
}

impl Tx {
    fn msg(&mut self, s: &mut Session, rng: &mut Rng, status: u8, data: &[u8]) {
        if status == self.last_status && rng.chance(1, 2) {
            // running status: omit the status byte
        } else {
            s.byte(status);
            self.last_status = status;
        }
        s.bytes(data);
    }
}

fn shape_hash(list: &[u8]) -> u64 {
    let mut h: u64 = 0xcbf29ce484222325;
    for &b in list {
        h ^= b as u64 + 1;
        h = h.wrapping_mul(0x100000001b3);
    }
    h ^ (list.len() as u64) << 56
}

/// keyboard-like traffic on the listened channel: chords up to 32 keys, random release order,
/// duplicates, strays, All-Notes-Off, velocity-0 offs, mode switches, polls at random positions
pub fn drive_kbd(s: &mut Session, rng: &mut Rng, runs: usize, events: usize) {
    drive_kbd_cap(s, rng, runs, events, 32)
}

/// more than 32 keys down at once (beyond the premise of C04; edges, controllers still apply)
pub fn drive_overflow(s: &mut Session, rng: &mut Rng, runs: usize) {
    drive_kbd_cap(s, rng, runs, 200, 45)
}

/// scripted histories around the limits of the held-note list and of any counter an implementation
/// might keep: one key struck more often than the list is long, more keys than it holds released one by
/// one, a list filled to the brim with repeats, and more than 2^16 note-ons on one receiver followed by
/// overlapping keys (run-length compressed, see Session::repeat)
pub fn drive_scripts(s: &mut Session, rng: &mut Rng, thorough: bool) {
    let prios = ["last", "high", "low"];
    // (a) one key struck 40 times without a release, in both modes, polled at different rhythms
    for variant in 0..4 {
        let ch = rng.below(16) as u8;
        s.start(ch, "kbd");
        s.retrig(variant % 2 == 1);
        s.prio(prios[variant % 3]);
        let k = rng.below(128) as u8;
        for i in 0..40 {
            s.bytes(&[0x90 | ch, k, 1 + rng.below(127) as u8]);
            if variant < 2 || i % 7 == 0 {
                s.poll_r();
                s.poll_f();
            }
        }
        s.poll_r();
        s.bytes(&[0x80 | ch, k, 0]);
        s.poll_f();
        s.poll_r();
        s.bytes(&[0x90 | ch, k, 5]);
        s.poll_r();
        s.poll_f();
        s.bytes(&[0x90 | ch, (k + 1) % 128, 5]);
        s.poll_r();
    }
    // (a2) 255 / 256 / 257 / 512 note-ons in retrigger mode (and without) that nobody polls in between: the
    //      edge is still reported exactly once afterwards (two alternating keys, so that the list never fills:
    //      each is released before it is struck again)
    for (vi, &n) in [255usize, 256, 257, 512, 65536].iter().enumerate() {
        if n > 1000 && !thorough && vi % 2 == 1 {
            continue;
        }
        let ch = rng.below(16) as u8;
        s.start(ch, "kbd");
        s.retrig(vi % 4 != 3);
        let k = 20 + rng.below(80) as u8;
        s.bytes(&[0x90 | ch, k, 100]);
        s.poll_r();
        s.poll_f();
        // one repetition = release the other key (if held), strike it: the gate stays high throughout
        let pat = [0x90 | ch, k + 1, 90, 0x80 | ch, k + 1, 0];
        s.repeat(n, 2, |s| s.bytes(&pat));
        s.poll_r();
        s.poll_r();
        s.poll_f();
        s.bytes(&[0xB0 | ch, 123, 0]);
        s.poll_f();
        s.poll_f();
        s.poll_r();
    }
    // (b) 33..45 distinct keys down, released one by one in random order, then a new key
    for variant in 0..(if thorough { 12 } else { 4 }) {
        let ch = rng.below(16) as u8;
        s.start(ch, "kbd");
        s.retrig(variant % 2 == 1);
        s.prio(prios[variant % 3]);
        let n = 33 + rng.below(13) as usize;
        let mut keys: Vec<u8> = (0..128u8).collect();
        rng.shuffle(&mut keys);
        keys.truncate(n);
        for &k in &keys {
            s.bytes(&[0x90 | ch, k, 64]);
        }
        s.poll_r();
        s.poll_f();
        rng.shuffle(&mut keys);
        for &k in &keys {
            if rng.chance(1, 2) {
                s.bytes(&[0x80 | ch, k, 0]);
            } else {
                s.bytes(&[0x90 | ch, k, 0]);
            }
        }
        s.poll_f();
        s.poll_r();
        for &k in keys.iter().take(3) {
            s.bytes(&[0x90 | ch, k, 33]);
            s.poll_r();
            s.poll_f();
            s.bytes(&[0x80 | ch, k, 0]);
            s.poll_r();
            s.poll_f();
        }
    }
    // (c) exactly 32 outstanding note-ons, some keys struck twice with other keys in between
    for variant in 0..(if thorough { 12 } else { 4 }) {
        let ch = rng.below(16) as u8;
        s.start(ch, "kbd");
        s.prio(prios[variant % 3]);
        let pool: Vec<u8> = (0..(8 + rng.below(20))).map(|_| rng.below(128) as u8).collect();
        let mut seq: Vec<u8> = Vec::new();
        for _ in 0..32 {
            let k = *rng.pick(&pool);
            seq.push(k);
            s.bytes(&[0x90 | ch, k, 1 + rng.below(127) as u8]);
        }
        // release in random order, observing the sounding note after every release
        let mut order = pool.clone();
        rng.shuffle(&mut order);
        for &k in &order {
            s.bytes(&[0x80 | ch, k, 0]);
            s.poll_f();
        }
    }
    // (d) more than 2^16 note-ons on one receiver, then overlapping keys across the 2^16th
    for variant in 0..2 {
        let ch = rng.below(16) as u8;
        s.start(ch, "kbd");
        s.prio("last");
        s.retrig(variant == 1);
        let k0 = rng.below(128) as u8;
        let polls = variant == 0;
        s.repeat(65_480, 24, |s| {
            s.bytes(&[0x90 | ch, k0, 100]);
            if polls {
                s.poll_r();
            }
            s.bytes(&[0x80 | ch, k0, 0]);
            if polls {
                s.poll_f();
            }
        });
        // legato: every key is pressed before the previous one is released, so that every two
        // consecutive note-ons (whatever their number) are outstanding together once
        let mut prev = 10u8;
        s.bytes(&[0x90 | ch, prev, 90]);
        for i in 0..140u32 {
            // alternately below and above the previous key (the most recent one is neither the
            // highest nor the lowest all the time)
            let next = if i % 2 == 0 { 100 - (i % 37) as u8 } else { 12 + (i % 41) as u8 };
            s.bytes(&[0x90 | ch, next, 91]);
            s.poll_r();
            s.bytes(&[0x80 | ch, prev, 0]);
            s.poll_f();
            prev = next;
        }
        s.bytes(&[0x80 | ch, prev, 0]);
        s.poll_f();
    }
}

fn drive_kbd_cap(s: &mut Session, rng: &mut Rng, runs: usize, events: usize, cap: usize) {
    let prios = ["last", "high", "low"];
    for run in 0..runs {
        let c: u8 = if rng.chance(1, 8) { rng.below(256) as u8 } else { rng.below(16) as u8 };
        let ch = c.min(15);
        s.start(c, "kbd");
        let mut tx = Tx { last_status: 0 };
        let mut held: Vec<u8> = Vec::new(); // only to respect the premise (<= 32 outstanding)
        let pool: Vec<u8> = (0..6).map(|_| rng.below(128) as u8).collect();
        let chordy = run % 3 == 0 || cap > 32;
        let mut target: usize = if cap > 32 { cap } else { 1 + rng.below(32) as usize };
        if cap > 32 && run % 2 == 0 {
            s.retrig(true);
        }
        let mut filling = true;
        for _ in 0..events {
            if !s.alive {
                break;
            }
            let r = rng.below(100);
            let want_on = if chordy {
                if filling && held.len() >= target {
                    filling = false;
                }
                if !filling && held.is_empty() {
                    filling = true;
                    target = if cap > 32 { 33 + rng.below((cap - 32) as u64) as usize } else { 1 + rng.below(32) as usize };
                }
                if filling { r < 55 } else { r < 10 }
            } else {
                r < 30
            };
            if want_on && held.len() < cap {
                let n = if rng.chance(7, 10) { *rng.pick(&pool) } else { rng.below(128) as u8 };
                let v = if rng.chance(1, 10) { *rng.pick(&[1u8, 127, 64]) } else { 1 + rng.below(127) as u8 };
                tx.msg(s, rng, 0x90 | ch, &[n, v]);
                held.push(n);
                s.shapes.insert(shape_hash(&held));
                s.stats.add("note_on", 1);
            } else if r < 62 {
                let n = if !held.is_empty() && rng.chance(8, 10) {
                    *rng.pick(&held)
                } else if rng.chance(1, 2) {
                    *rng.pick(&pool)
                } else {
                    rng.below(128) as u8
                };
                if !held.contains(&n) {
                    s.stats.add("stray_off", 1);
                }
                if rng.chance(1, 2) {
                    tx.msg(s, rng, 0x90 | ch, &[n, 0]);
                } else {
                    let rv = rng.below(128) as u8;
                    tx.msg(s, rng, 0x80 | ch, &[n, rv]);
                }
                held.retain(|x| *x != n);
                s.shapes.insert(shape_hash(&held));
                s.stats.add("note_off", 1);
            } else if r < 65 {
                let v = rng.below(128) as u8;
                tx.msg(s, rng, 0xB0 | ch, &[123, v]);
                held.clear();
                s.stats.add("all_notes_off", 1);
            } else if r < 77 {
                s.poll_r();
            } else if r < 89 {
                s.poll_f();
            } else if r < 92 {
                let m = rng.chance(1, 2);
                s.retrig(m);
            } else if r < 95 {
                let p = *rng.pick(&prios);
                s.prio(p);
            } else if r < 98 {
                // foreign channel note traffic: must change nothing
                let fc = (ch + 1 + rng.below(15) as u8) % 16;
                let n = rng.below(128) as u8;
                let v = rng.below(128) as u8;
                let st = if rng.chance(1, 2) { 0x90 } else { 0x80 };
                tx.msg(s, rng, st | fc, &[n, v]);
            } else {
                let k = *rng.pick(&[1u8, 7, 64, 65, 2, 120]);
                let v = rng.below(128) as u8;
                tx.msg(s, rng, 0xB0 | ch, &[k, v]);
            }
        }
        // release everything in random order, polling after each
        rng.shuffle(&mut held);
        let rest = held.clone();
        for n in rest {
            tx.msg(s, rng, 0x80 | ch, &[n, 0]);
            if rng.chance(1, 2) {
                s.poll_f();
            }
        }
        s.poll_f();
        s.poll_r();
    }
}

fn structured_stream(rng: &mut Rng, ch: u8, len: usize) -> Vec<u8> {
    let mut v = Vec::new();
    let mut last = 0u8;
    let mut held = 0usize;
    while v.len() < len {
        let c = if rng.chance(6, 10) { ch } else { rng.below(16) as u8 };
        let kind = rng.below(12);
        let (st, data): (u8, Vec<u8>) = match kind {
            0..=3 => {
                if c == ch {
                    held += 1;
                }
                (0x90 | c, vec![rng.below(128) as u8, if held > 24 { 0 } else { rng.below(128) as u8 }])
            }
            4..=5 => (0x80 | c, vec![rng.below(128) as u8, rng.below(128) as u8]),
            6..=7 => (0xB0 | c, vec![*rng.pick(&[1u8, 5, 7, 64, 65, 71, 74, 121, 123, 3, 99]), rng.below(128) as u8]),
            8 => (0xE0 | c, vec![rng.below(128) as u8, rng.below(128) as u8]),
            9 => (0xC0 | c, vec![rng.below(128) as u8]),
            10 => (0xD0 | c, vec![rng.below(128) as u8]),
            _ => (0xA0 | c, vec![rng.below(128) as u8, rng.below(128) as u8]),
        };
        if st == 0xB0 | ch && data[0] == 123 {
            held = 0;
        }
        if !(st == last && rng.chance(2, 3)) {
            v.push(st);
            last = st;
        }
        v.extend(data);
    }
    v
}

fn maybe_poll(s: &mut Session, rng: &mut Rng, per_mille: u64) {
    if rng.chance(per_mille, 1000) {
        if rng.chance(1, 2) {
            s.poll_r()
        } else {
            s.poll_f()
        }
    }
}

/// byte-stream framing: unstructured bytes, status-heavy bytes, structured multi-channel traffic
/// with real-time bytes / foreign messages / truncated messages injected at every split point
pub fn drive_framing(s: &mut Session, rng: &mut Rng, scale: usize) {
    // (a) uniform random bytes
    for _ in 0..(4 * scale) {
        s.start(rng.below(16) as u8, "framing");
        for _ in 0..600 {
            let b = rng.below(256) as u8;
            s.byte(b);
            maybe_poll(s, rng, 40);
        }
    }
    // (b) status-heavy and channel-focused random bytes
    for _ in 0..(6 * scale) {
        let c = rng.below(16) as u8;
        s.start(c, "framing");
        for _ in 0..600 {
            let r = rng.below(100);
            let b: u8 = if r < 12 {
                (*rng.pick(&[0x80u8, 0x90, 0x90, 0xB0, 0xE0])) | c
            } else if r < 20 {
                0x80 | rng.below(0x70) as u8
            } else if r < 26 {
                0xF8 + rng.below(8) as u8
            } else if r < 31 {
                0xF0 + rng.below(8) as u8
            } else if r < 40 {
                *rng.pick(&[0u8, 1, 5, 7, 64, 65, 71, 74, 121, 123, 127])
            } else {
                rng.below(128) as u8
            };
            s.byte(b);
            maybe_poll(s, rng, 40);
        }
    }
    // (c) structured streams with an injection at every split point
    for _ in 0..scale {
        let c = rng.below(16) as u8;
        let base = structured_stream(rng, c, 40);
        let foreign = (c + 1 + rng.below(15) as u8) % 16;
        let injections: Vec<Vec<u8>> = vec![
            vec![0xF8],
            vec![0xFE, 0xFA, 0xFF],
            vec![0x90 | foreign, 60, 100],
            vec![0xB0 | foreign, 123, 0],
            vec![0xC0 | c, 5],
            vec![0xA0 | c, 60, 1],
            vec![0xF0, 1, 2, 3, 0xF7],
            vec![0xF2, 1],
            vec![0xF1],
            vec![0x90 | c, 61],
        ];
        for inj in injections.iter() {
            for k in 0..=base.len() {
                s.start(c, "framing");
                s.bytes(&base[..k]);
                s.bytes(inj);
                s.bytes(&base[k..]);
                s.poll_r();
                s.poll_f();
                s.stats.add("injections", 1);
            }
        }
    }
}

/// long stretches of bytes that must change nothing (run-length compressed): floods of 1 .. 1100 real-time
/// bytes inside and between messages under running status, and system-exclusive dumps of up to 5000 data
/// bytes after a listened-channel message - a parser that "gives up" or "resynchronises" after some count
/// shows only here
pub fn drive_floods(s: &mut Session, rng: &mut Rng, thorough: bool) {
    let counts: Vec<usize> = vec![1, 2, 23, 24, 25, 95, 96, 97, 127, 128, 129, 255, 256, 257, 300, 1000, 1100];
    for (i, &n) in counts.iter().enumerate() {
        for split in 0..4usize {
            if !thorough && (i + split) % 2 == 1 {
                continue;
            }
            let c = rng.below(16) as u8;
            s.start(c, "framing");
            let rt = *rng.pick(&[0xF8u8, 0xF8, 0xFE, 0xFA]);
            let msg = [0x90 | c, 60 + split as u8, 100];
            // the flood after `split` bytes of a note-on, then the rest, then another note under running status
            s.bytes(&msg[..split.min(3)]);
            s.repeat(n, 2, |s| s.byte(rt));
            s.bytes(&msg[split.min(3)..]);
            s.bytes(&[64, 80]);
            s.poll_r();
            s.repeat(n, 2, |s| s.byte(rt));
            s.bytes(&[65, 0]);
            s.bytes(&[64, 0, 60 + split as u8, 0]);
            s.poll_f();
        }
    }
    for &n in [3usize, 100, 1023, 1024, 1025, 1030, 2048, 5000].iter() {
        let c = rng.below(16) as u8;
        s.start(c, "framing");
        s.bytes(&[0x90 | c, 60, 100]);
        s.byte(0xF0);
        let d = [0x3Eu8, 0x50];
        s.repeat(n / 2, 2, |s| s.bytes(&d));
        s.byte(0xF7);
        s.poll_r();
        s.bytes(&[0x90 | c, 62, 90, 60, 0]);
        s.bytes(&[0xB0 | c, 7, 99]);
        // the same without a terminator: the next status byte ends the dump
        s.byte(0xF0);
        s.repeat(n / 2, 2, |s| s.bytes(&d));
        s.bytes(&[0x80 | c, 62, 0]);
        s.poll_f();
    }
}

/// short byte sequences, exhaustively, after each of a set of wire-state prefixes
pub fn drive_short(s: &mut Session, rng: &mut Rng, full: bool, shard: Option<usize>) {
    let c = rng.below(16) as u8;
    let f = (c + 1) % 16;
    let prefixes: Vec<Vec<u8>> = vec![
        vec![],
        vec![0x90 | c],
        vec![0x90 | c, 60],
        vec![0x90 | c, 60, 100],
        vec![0x90 | c, 60, 100, 0x80 | c],
        vec![0x90 | c, 60, 100, 0x80 | c, 60],
        vec![0xB0 | c],
        vec![0xB0 | c, 123],
        vec![0xE0 | c, 5],
        vec![0x90 | f, 60],
        vec![0x90 | c, 60, 100, 0xF0],
        vec![0x90 | c, 60, 100, 0xC0 | c],
        vec![0xB0 | c, 121, 0],
        vec![0xB0 | c, 123, 0],
        vec![0xB0 | c, 1, 100, 121],
        vec![0xE0 | c, 1, 2],
    ];
    let alpha: Vec<u8> = if full {
        (0..=255u8).collect()
    } else {
        let mut a: Vec<u8> = vec![
            0, 1, 5, 7, 60, 61, 64, 65, 71, 74, 100, 121, 123, 127, 0x80 | c, 0x90 | c, 0xA0 | c, 0xB0 | c, 0xC0 | c,
            0xD0 | c, 0xE0 | c, 0x80 | f, 0x90 | f, 0xB0 | f, 0xE0 | f, 0xF0, 0xF1, 0xF2, 0xF3, 0xF4, 0xF6, 0xF7, 0xF8,
            0xFA, 0xFE, 0xFF,
        ];
        a.dedup();
        a
    };
    for (pi, p) in prefixes.iter().enumerate() {
        if let Some(k) = shard {
            if pi % 4 != k {
                continue;
            }
        }
        // length 1: all 256 values
        for b in 0..=255u8 {
            s.start(c, "framing");
            s.bytes(p);
            s.byte(b);
            s.byte(64); // a trailing data byte reveals the parser state left behind
            s.byte(0xF8);
            s.byte(65);
            s.stats.add("short_sequences", 1);
        }
        // length 2 over the alphabet
        for &b1 in alpha.iter() {
            for &b2 in alpha.iter() {
                s.start(c, "framing");
                s.bytes(p);
                s.byte(b1);
                s.byte(b2);
                s.byte(64);
                s.byte(65);
                s.stats.add("short_sequences", 1);
            }
        }
    }
}

/// controllers and pitch bend: exhaustive sweeps
pub fn drive_ctl(s: &mut Session, rng: &mut Rng, full: bool) {
    let main_c = rng.below(16) as u8;
    // full 128 x 128 sweep on one channel (all 16 when full)
    let chans: Vec<u8> = if full { (0..16).collect() } else { vec![main_c] };
    for &c in chans.iter() {
        s.start(c, "ctl");
        let mut first = true;
        for k in 0..128u8 {
            if k == 123 || k >= 118 || k % 13 == 0 {
                // a key is held while these controllers sweep (CC 123 releases it, the channel-mode
                // controllers around it and every other number must leave it alone)
                s.bytes(&[0x90 | c, 48 + k % 24, 100]);
                first = true;
            }
            for v in 0..128u8 {
                if first {
                    s.byte(0xB0 | c);
                    first = false;
                }
                s.bytes(&[k, v]);
                s.stats.add("cc_msgs", 1);
            }
            if k % 16 == 5 {
                s.bytes(&[0x90 | c, 40 + k / 2, 90]);
                s.bytes(&[0x80 | c, 40 + k / 2, 0]);
                first = true;
            }
        }
        s.poll_r();
        s.poll_f();
    }
    // the other channels: every controller x 4 values on the listened channel, and a complete
    // controller sweep sent on a foreign channel (must change nothing)
    for c in 0..16u8 {
        if chans.contains(&c) && !full {
            continue;
        }
        if full {
            break;
        }
        s.start(c, "ctl");
        s.byte(0xB0 | c);
        for k in 0..128u8 {
            for v in [0u8, 63, 64, 127] {
                s.bytes(&[k, v]);
                s.stats.add("cc_msgs", 1);
            }
        }
        let f = (c + 1 + rng.below(15) as u8) % 16;
        s.byte(0xB0 | f);
        for k in 0..128u8 {
            s.bytes(&[k, 127]);
        }
        s.byte(0xE0 | f);
        s.bytes(&[0, 0, 127, 127]);
    }
    // controller values set, then reset-all-controllers
    for _ in 0..40 {
        let c = rng.below(16) as u8;
        s.start(c, "ctl");
        for k in [1u8, 5, 7, 71, 74, 64, 65] {
            s.bytes(&[0xB0 | c, k, rng.below(128) as u8]);
        }
        s.bytes(&[0xE0 | c, rng.below(128) as u8, rng.below(128) as u8]);
        s.bytes(&[0x90 | c, 50, 70]);
        let (lsb, msb) = (rng.below(128) as u8, rng.below(128) as u8);
        s.bytes(&[0xE0 | c, lsb, msb]);
        let (k, v) = (*rng.pick(&[1u8, 5, 7, 71, 74, 64, 65]), rng.below(128) as u8);
        s.bytes(&[0xB0 | c, k, v]);
        s.bytes(&[0xB0 | c, 121, rng.below(128) as u8]);
        // the very same values again after the reset: they must take effect again
        s.bytes(&[0xE0 | c, lsb, msb]);
        s.bytes(&[0xB0 | c, k, v]);
        s.poll_r();
        s.bytes(&[0x80 | c, 50, 0]);
        s.poll_f();
    }
    // pitch bend: all 16384 values ascending, then a seeded permutation
    let c = main_c;
    s.start(c, "ctl");
    s.byte(0xE0 | c);
    for v in 0..16384u32 {
        s.bytes(&[(v & 127) as u8, (v >> 7) as u8]);
        s.stats.add("pb_msgs", 1);
    }
    let mut perm: Vec<u32> = (0..16384).collect();
    rng.shuffle(&mut perm);
    let n = if full { 16384 } else { 4096 };
    s.start(c, "ctl");
    for (i, v) in perm.iter().take(n).enumerate() {
        if i % 97 == 0 {
            s.byte(0xE0 | c);
        }
        s.bytes(&[(*v & 127) as u8, (*v >> 7) as u8]);
        s.stats.add("pb_msgs", 1);
        if i % 500 == 3 {
            s.bytes(&[0x90 | c, 33, 3]);
            s.bytes(&[0x80 | c, 33, 3]);
        }
    }
    if full {
        for cc in 0..16u8 {
            s.start(cc, "ctl");
            s.byte(0xE0 | cc);
            for v in (0..16384u32).step_by(7) {
                s.bytes(&[(v & 127) as u8, (v >> 7) as u8]);
            }
        }
    }
}

/// re-execute the operations of a recorded trace on the current build (replay of a violation)
fn rerun_one(s: &mut Session, e: &serde_json::Value) {
    match e["op"].as_str().unwrap_or("") {
        "new" => s.start(e["c"].as_u64().unwrap() as u8, e["drv"].as_str().unwrap_or("kbd")),
        "b" => s.byte(e["b"].as_u64().unwrap() as u8),
        "pr" => s.poll_r(),
        "pf" => s.poll_f(),
        "rt" => s.retrig(e["m"].as_bool().unwrap()),
        "pri" => s.prio(e["p"].as_str().unwrap()),
        _ => {}
    }
}

pub fn rerun(lines: &[serde_json::Value], out: &mut Out) {
    let mut s = Session::new(out);
    let mut mark: Option<usize> = None;
    for (i, e) in lines.iter().enumerate() {
        match e["op"].as_str().unwrap_or("") {
            "mark" => {
                s.out.line("{\"op\":\"mark\"}");
                s.out.begin_capture();
                mark = Some(i);
            }
            "rep" => {
                let pat_out = s.out.end_capture();
                s.out.emit_all(&pat_out);
                if let Some(m) = mark.take() {
                    let pat: Vec<&serde_json::Value> = lines[m + 1..i].iter().collect();
                    let n = e["n"].as_u64().unwrap() as usize;
                    s.repeat_like(&pat_out, n, |s| {
                        for x in &pat {
                            rerun_one(s, x);
                        }
                    });
                }
            }
            _ => rerun_one(&mut s, e),
        }
    }
    let rest = s.out.end_capture();
    s.out.emit_all(&rest);
}

pub fn record(driver: &str, seed: u64, thorough: bool, out: &mut Out) -> Stats {
    let mut rng = Rng::new(seed ^ 0x6d69_6469);
    let mut s = Session::new(out);
    let (driver, shard) = match driver.split_once(':') {
        Some((n, k)) => (n, k.parse::<usize>().ok()),
        None => (driver, None),
    };
    match driver {
        "kbd" => {
            if thorough {
                drive_kbd(&mut s, &mut rng, 900, 400);
                drive_kbd(&mut s, &mut rng, 2, 150_000);
                drive_scripts(&mut s, &mut rng, true);
                drive_overflow(&mut s, &mut rng, 100)
            } else {
                drive_kbd(&mut s, &mut rng, 120, 300);
                // one long history without a reset (more than 2^16 bytes)
                drive_kbd(&mut s, &mut rng, 1, 30_000);
                drive_scripts(&mut s, &mut rng, false);
                drive_overflow(&mut s, &mut rng, 12)
            }
        }
        "framing" => {
            drive_framing(&mut s, &mut rng, if thorough { 6 } else { 1 });
            drive_floods(&mut s, &mut rng, thorough);
        }
        "short" => drive_short(&mut s, &mut rng, thorough, shard),
        "ctl" => drive_ctl(&mut s, &mut rng, thorough),
        _ => {
            eprintln!("unknown midi driver {}", driver);
            std::process::exit(2)
        }
    }
    let n = s.shapes.len() as i64;
    s.stats.add("distinct_held_lists", n);
    s.stats
}

// ---------------------------------------------------------------------------------------------
// specification -> implementation: TLC graph replay

pub struct GraphTarget {
    out: Out,
    rx: Option<MonoMidiReceiver>,
    chan: u8,
    ctl_as_built: bool,
}

impl GraphTarget {
    pub fn new(chan: u8) -> Self {
        GraphTarget { out: Out::memory(), rx: None, chan, ctl_as_built: true }
    }
    fn feed(&mut self, b: u8) {
        let rx = self.rx.as_mut().unwrap();
        rx.parse(b);
        let o = obs(rx);
        self.out.line(&format!("{{\"op\":\"b\",\"b\":{},\"o\":{}}}", b, o));
    }
}

fn cc_abs(v: f32) -> i64 {
    (v as f64 * 127.0).round() as i64
}

fn pb_abs(v: f32) -> i64 {
    let x = v as f64;
    (if x > 0.0 { x * 8191.0 } else { x * 8192.0 }).round() as i64 + 8192
}

impl crate::graphrun::Target for GraphTarget {
    fn fresh(&mut self) {
        self.out = Out::memory();
        let rx = MonoMidiReceiver::new(self.chan);
        // the bounded model starts from (and controller 121 returns to) the power-on controller state of the
        // code as first pinned; nobody states that state, so if this tree powers on differently the
        // controller outputs are left to the trace validation (which reads the power-on state off the
        // new receiver) and the graph replay compares the note / gate / pitch-bend outputs only
        self.ctl_as_built = cc_abs(rx.mod_wheel()) == 0
            && cc_abs(rx.volume()) == 0
            && cc_abs(rx.vcf_cutoff()) == 0
            && cc_abs(rx.vcf_resonance()) == 0
            && cc_abs(rx.portamento_time()) == 0
            && rx.portamento_enabled()
            && rx.sustain_enabled();
        self.rx = Some(rx);
        self.out.line(&format!("{{\"op\":\"new\",\"c\":{},\"drv\":\"graph\"}}", self.chan));
    }
    fn apply(&mut self, op: &serde_json::Value, p: &serde_json::Value) -> Vec<String> {
        let mut tags = Vec::new();
        match op["op"].as_str().unwrap() {
            "msg" => {
                for k in ["s", "a", "b"] {
                    self.feed(op[k].as_u64().unwrap() as u8);
                }
            }
            "byte" => self.feed(op["b"].as_u64().unwrap() as u8),
            "poll_r" => {
                let r = self.rx.as_mut().unwrap().rising_gate();
                self.out.line(&format!("{{\"op\":\"pr\",\"r\":{}}}", r));
                if r != op["r"].as_bool().unwrap() {
                    tags.push("C05:rising".to_string());
                }
            }
            "poll_f" => {
                let r = self.rx.as_mut().unwrap().falling_gate();
                self.out.line(&format!("{{\"op\":\"pf\",\"r\":{}}}", r));
                if r != op["r"].as_bool().unwrap() {
                    tags.push("C05:falling".to_string());
                }
            }
            "retrig" => {
                let m = op["m"].as_bool().unwrap();
                self.rx.as_mut().unwrap().set_retrigger_mode(if m {
                    RetriggerMode::AllowRetrigger
                } else {
                    RetriggerMode::NoRetrigger
                });
                self.out.line(&format!("{{\"op\":\"rt\",\"m\":{}}}", m));
            }
            "prio" => {
                let pr = op["p"].as_str().unwrap();
                self.rx.as_mut().unwrap().set_note_priority(match pr {
                    "high" => NotePriority::High,
                    "low" => NotePriority::Low,
                    _ => NotePriority::Last,
                });
                self.out.line(&format!("{{\"op\":\"pri\",\"p\":{}}}", jstr(pr)));
            }
            other => {
                eprintln!("unknown graph op {}", other);
                std::process::exit(2)
            }
        }
        let rx = self.rx.as_ref().unwrap();
        let got: [(&str, i64); 11] = [
            ("C04:gate", rx.gate() as i64),
            ("C04:note", rx.note_num() as i64),
            ("C04:velocity", cc_abs(rx.velocity())),
            ("C18:pb", pb_abs(rx.pitch_bend())),
            ("C18:mod", cc_abs(rx.mod_wheel())),
            ("C18:volume", cc_abs(rx.volume())),
            ("C18:cutoff", cc_abs(rx.vcf_cutoff())),
            ("C18:resonance", cc_abs(rx.vcf_resonance())),
            ("C18:portamento-time", cc_abs(rx.portamento_time())),
            ("C18:portamento-switch", rx.portamento_enabled() as i64),
            ("C18:sustain-switch", rx.sustain_enabled() as i64),
        ];
        for (i, (tag, g)) in got.iter().enumerate() {
            if i >= 4 && !self.ctl_as_built {
                continue;
            }
            let e = &p[i];
            let ev = if e.is_boolean() { e.as_bool().unwrap() as i64 } else { e.as_i64().unwrap() };
            if ev != *g {
                tags.push(tag.to_string());
            }
        }
        if !tags.is_empty() && op["op"].as_str().unwrap() == "byte" {
            tags.push("C06:outputs".to_string());
        }
        tags
    }
    fn trace(&self) -> Vec<String> {
        self.out.mem.clone()
    }
}
