//! Ribbon controller: trace recording drivers, trace re-execution, graph replay.
use crate::util::*;
use std::collections::HashSet;
use synth_utils::ribbon_controller::{sample_rate_to_capacity, RibbonController};

pub trait Rib {
    fn poll(&mut self, x: f32);
    fn value(&self) -> f32;
    fn pressing(&self) -> bool;
    fn just_pressed(&mut self) -> bool;
    fn just_released(&mut self) -> bool;
}

impl<const N: usize> Rib for RibbonController<N> {
    fn poll(&mut self, x: f32) {
        RibbonController::poll(self, x)
    }
    fn value(&self) -> f32 {
        RibbonController::value(self)
    }
    fn pressing(&self) -> bool {
        self.finger_is_pressing()
    }
    fn just_pressed(&mut self) -> bool {
        self.finger_just_pressed()
    }
    fn just_released(&mut self) -> bool {
        self.finger_just_released()
    }
}

pub const RATES: [u32; 12] = [100, 500, 1000, 1500, 2000, 8000, 10000, 22050, 44100, 48000, 96000, 192000];
pub const RESISTORS: [(f32, f32, f32); 6] = [(20e3, 820.0, 1e6), (10e3, 470.0, 100e3), (10e3, 1e3, 11e3),
                                             (20e3, 1.5e3, 1e6), (10e3, 1e3, 1e6), (47e3, 2.2e3, 470e3)];

macro_rules! mk {
    ($fs:expr, $frac:expr, $s:expr, $d:expr, $p:expr, $($r:literal),*) => {
        match $fs {
            $( $r => Some((Box::new(RibbonController::<{ sample_rate_to_capacity($r) }>::new($r as f32 + $frac, $s, $d, $p)) as Box<dyn Rib>,
                           sample_rate_to_capacity($r))), )*
            _ => None,
        }
    };
}

pub fn make(fs: u32, res: (f32, f32, f32)) -> Option<(Box<dyn Rib>, usize)> {
    make_frac(fs, 0.0, res)
}

/// a controller told the sample rate fs + frac (0 <= frac < 1) with the buffer sized for fs
pub fn make_frac(fs: u32, frac: f32, res: (f32, f32, f32)) -> Option<(Box<dyn Rib>, usize)> {
    mk!(fs, frac, res.0, res.1, res.2, 100, 500, 999, 1000, 1500, 1999, 2000, 8000, 9999, 10000, 22050, 44100, 47999, 48000, 96000,
        192000, 250, 3000, 7000, 11025, 14000, 16000, 28000, 31250, 32000, 32768, 45000, 56000, 64000, 88200, 90000, 176400)
}

fn boundary(res: (f32, f32, f32)) -> f32 {
    1.0 - (res.1 / (res.1 + res.0))
}

/// smallest 12-bit code whose sample is not below the press boundary
fn threshold_code(res: (f32, f32, f32)) -> u32 {
    threshold_code_den(res, 4096)
}

/// the same for samples code / den (den a power of two up to 2^24: every code is exact in f32)
fn threshold_code_den(res: (f32, f32, f32), den: u32) -> u32 {
    let b = boundary(res);
    let (mut lo, mut hi) = (0u32, den); // invariant: lo/den < b, !(hi/den < b)
    if !((lo as f32 / den as f32) < b) {
        return 0;
    }
    if (hi as f32 / den as f32) < b {
        return den;
    }
    while hi - lo > 1 {
        let mid = lo + (hi - lo) / 2;
        if (mid as f32 / den as f32) < b {
            lo = mid
        } else {
            hi = mid
        }
    }
    hi
}

pub struct Session<'a> {
    rib: Option<Box<dyn Rib>>,
    out: &'a mut Out,
    pub stats: Stats,
    pub alive: bool,
    pub thr: u32,
    /// largest code at least two floats below the press boundary / smallest code at least two floats
    /// above it: the drivers never use the codes in between (a boundary that differs by one float, e.g.
    /// from an algebraically equivalent formula, is inside the resolution of the property)
    pub in_max: u32,
    pub out_min: u32,
    pub need: usize,
    pub den: u32,
    pub shapes: HashSet<u64>,
}

impl<'a> Session<'a> {
    pub fn new(out: &'a mut Out) -> Self {
        Session { rib: None, out, stats: Stats::new(), alive: false, thr: 4096, in_max: 4095, out_min: 4096, need: 0, den: 4096, shapes: HashSet::new() }
    }
    fn panic_event(&mut self, during: &str, msg: &str) {
        self.out.line(&format!("{{\"op\":\"panic\",\"where\":\"ribbon\",\"during\":{},\"msg\":{}}}", jstr(during), jstr(msg)));
        self.stats.add("panics", 1);
        self.alive = false;
        self.rib = None;
    }
    pub fn start(&mut self, fs: u32, ri: usize) {
        self.start_ext(fs, 0.0, ri, 12)
    }
    /// sample rate fs + frac, samples on the grid 2^-den_bits (12: ADC codes; 22: fine positions; 24: every
    /// f32 in [0.5, 1), in particular the press boundary itself)
    pub fn start_ext(&mut self, fs: u32, frac: f32, ri: usize, den_bits: u32) {
        let res = RESISTORS[ri];
        self.den = 1 << den_bits;
        self.thr = threshold_code_den(res, self.den);
        let kb = key(boundary(res));
        let denf = self.den as f32;
        let mut c = self.thr.saturating_sub(1);
        while c > 0 && kb - key(c as f32 / denf) < 2 {
            c -= 1;
        }
        self.in_max = c;
        let mut c = self.thr;
        while c < self.den && key(c as f32 / denf) - kb < 2 {
            c += 1;
        }
        self.out_min = c;
        let ec = (res.0 + res.1) / res.2;
        // the buffer is sized for fs; the controller is told fs + frac (frac may be negative: a buffer
        // sized for the nominal rate of a clock that runs a little slow) and truncates that to whole Hz
        let cap = sample_rate_to_capacity(fs);
        let told = (fs as f32 + frac) as u32;
        let ig = (told / 1000) as usize;
        self.need = cap + ig.max(1) - 1;
        self.out.line(&format!(
            "{{\"op\":\"new\",\"fs\":{},\"cfs\":{},\"fr\":{},\"ri\":{},\"cap\":{},\"thr\":{},\"den\":{},\"bq\":{},\"ecq\":{}}}",
            told, fs, key(frac), ri, cap, self.thr, self.den, q24(boundary(res)), q24(ec)
        ));
        self.stats.add("runs", 1);
        match guarded(|| make_frac(fs, frac, res)) {
            Ok(Some((r, _))) => {
                self.rib = Some(r);
                self.alive = true;
            }
            Ok(None) => {
                eprintln!("unsupported ribbon sample rate {}", fs);
                std::process::exit(2)
            }
            Err(m) => self.panic_event("new", &m),
        }
    }
    /// code = u32::MAX stands for the sample -0.0 (equal to 0.0, the lower end of the input range)
    pub fn poll(&mut self, code: u32) {
        if !self.alive {
            return;
        }
        let r = self.rib.as_mut().unwrap();
        let den = self.den;
        let (x, code) = if code == u32::MAX { (-0.0f32, 0) } else { (code as f32 / den as f32, code) };
        match guarded(|| {
            r.poll(x);
            (r.pressing(), r.value())
        }) {
            Ok((p, v)) => {
                self.out.line(&format!("{{\"op\":\"p\",\"x\":{},\"pr\":{},\"k\":{},\"q\":{}}}", code, p, key(v), q24(v)));
                self.stats.add("polls", 1);
            }
            Err(m) => self.panic_event(&format!("poll({}/4096)", code), &m),
        }
    }
    pub fn jp(&mut self) {
        if !self.alive {
            return;
        }
        let r = self.rib.as_mut().unwrap();
        match guarded(|| r.just_pressed()) {
            Ok(b) => self.out.line(&format!("{{\"op\":\"jp\",\"r\":{}}}", b)),
            Err(m) => self.panic_event("finger_just_pressed", &m),
        }
    }
    pub fn jr(&mut self) {
        if !self.alive {
            return;
        }
        let r = self.rib.as_mut().unwrap();
        match guarded(|| r.just_released()) {
            Ok(b) => self.out.line(&format!("{{\"op\":\"jr\",\"r\":{}}}", b)),
            Err(m) => self.panic_event("finger_just_released", &m),
        }
    }
    /// n repetitions of a call pattern, run-length compressed (see midi::Session::repeat)
    pub fn repeat(&mut self, n: usize, head: usize, mut f: impl FnMut(&mut Self)) {
        let mut i = 0;
        while i < n.min(head) {
            f(self);
            i += 1;
        }
        if i >= n || !self.alive {
            return;
        }
        self.out.line("{\"op\":\"mark\"}");
        self.out.begin_capture();
        f(self);
        let pat = self.out.end_capture();
        self.out.emit_all(&pat);
        i += 1;
        self.repeat_like(&pat, n - i, f);
    }
    fn repeat_like(&mut self, pat: &[String], n: usize, mut f: impl FnMut(&mut Self)) {
        let mut same = 0u64;
        let mut i = 0;
        while i < n {
            self.out.begin_capture();
            f(self);
            let cur = self.out.end_capture();
            i += 1;
            if cur == pat {
                same += 1;
            } else {
                if same > 0 {
                    self.out.line(&format!("{{\"op\":\"rep\",\"n\":{}}}", same));
                    same = 0;
                }
                self.out.emit_all(&cur);
                while i < n {
                    f(self);
                    i += 1;
                }
            }
        }
        if same > 0 {
            self.out.line(&format!("{{\"op\":\"rep\",\"n\":{}}}", same));
        }
    }
    fn maybe_edges(&mut self, rng: &mut Rng, per_mille: u64) {
        if rng.chance(per_mille, 1000) {
            if rng.chance(1, 2) {
                self.jp()
            } else {
                self.jr()
            }
        }
    }
    /// n in-range samples (random codes), with edge polls sprinkled in
    pub fn hold(&mut self, rng: &mut Rng, n: usize, style: u32, poll_pm: u64) {
        let lim = self.in_max + 1; // codes below lim are safely in range
        let base = rng.below(lim as u64 - 1) as u32;
        for i in 0..n {
            let code = match style {
                0 => base,
                1 => {
                    if rng.chance(1, 60) {
                        u32::MAX // the sample -0.0
                    } else {
                        rng.below(lim as u64) as u32
                    }
                }
                2 => ((base as usize + i * 7) % lim as usize) as u32,
                _ => {
                    if i % 2 == 0 {
                        0
                    } else {
                        lim - 1
                    }
                }
            };
            self.poll(code);
            self.maybe_edges(rng, poll_pm);
        }
    }
    pub fn lift(&mut self, rng: &mut Rng, n: usize, poll_pm: u64) {
        for _ in 0..n {
            let code = self.out_min + rng.below((self.den - self.out_min) as u64 + 1) as u32;
            self.poll(code.min(self.den));
            self.maybe_edges(rng, poll_pm);
        }
    }
}

/// presses around the capture length, short taps back to back, glitches, long presses
pub fn drive_press(s: &mut Session, rng: &mut Rng, thorough: bool) {
    // one very long uninterrupted press (more than 2^16 samples) with a moving finger
    {
        s.start(2000, 0);
        let thr = s.in_max + 1;
        let n = 70_000usize;
        for i in 0..n {
            let code = ((i / 3) % (thr as usize - 1)) as u32;
            s.poll(code);
            if i % 9973 == 0 {
                s.jp();
            }
        }
        s.lift(rng, 2, 0);
        s.jr();
    }
    for (fi, &fs) in RATES.iter().enumerate() {
        let big = fs >= 22050;
        let reps = if thorough { if big { 3 } else { 10 } } else if big { 1 } else { 3 };
        for rep in 0..reps {
            let ri = (rep + fi) % 3;
            s.start(fs, ri);
            let need = s.need;
            let pm = if big { 2 } else { 60 };
            // a clean press of exactly the needed length +- 2, then lift
            for d in [-2i64, -1, 0, 1, 2] {
                if big && d != 0 && d != -1 && !thorough {
                    continue;
                }
                let n = (need as i64 + d).max(1) as usize;
                s.hold(rng, n, 1, pm);
                s.jp();
                let k = 1 + rng.below(3) as usize;
                s.lift(rng, k, pm);
                s.jr();
                s.jp();
            }
            // short taps back to back separated by single out-of-range samples: must never add up
            let taps = if big { 3 } else { 8 };
            for _ in 0..taps {
                let n = 1 + rng.below(need as u64 - 1) as usize;
                let st = rng.below(4) as u32;
                s.hold(rng, n, st, pm);
                s.lift(rng, 1, pm);
            }
            s.jp();
            s.jr();
            // the classic: two taps whose lengths add up to more than the needed run
            let a = need * 6 / 10;
            s.hold(rng, a, 1, pm);
            s.lift(rng, 1, 0);
            s.hold(rng, need - a + 2, 1, pm);
            s.jp();
            s.lift(rng, 2, 0);
            // isolated in-range glitches at several spacings
            if !big {
                for gap in [1usize, 2, 3, 7] {
                    for _ in 0..(need / 2 + 3) {
                        s.hold(rng, 1, 1, 0);
                        s.lift(rng, gap, 0);
                    }
                }
            }
            // a long press with moving finger, then release
            let long = if big { need + need / 3 } else { 3 * need + rng.below(50) as usize };
            let st = 1 + rng.below(3) as u32;
            s.hold(rng, long, st, pm);
            s.jp();
            s.jp();
            s.lift(rng, 3, pm);
            s.jr();
            s.jr();
            // a second press right away: its value must not depend on the first
            s.hold(rng, need + 5, 1, pm);
            s.lift(rng, 1, 0);
            s.shapes.insert((fs as u64) << 8 | ri as u64);
        }
    }
}

/// finer sample grids, other resistors, fractional sample rates, long unpolled histories
pub fn drive_fine(s: &mut Session, rng: &mut Rng, thorough: bool) {
    // (a) one long press with a finger creeping upwards far slower than one f32 step of a running sum per
    //     sample (positions on the 2^-22 grid): the reported mean has to keep up with the window
    for &(fs, every) in &[(10000u32, 16usize), (2000, 5), (22050, 40)] {
        let ri = rng.below(6) as usize;
        s.start_ext(fs, 0.0, ri, 22);
        let n = if thorough { 40_000 } else { 9_000 };
        let base = s.in_max - (n / every) as u32 - rng.below(1000) as u32;
        for i in 0..n {
            s.poll(base + (i / every) as u32);
        }
        s.lift(rng, 2, 0);
        s.jr();
    }
    // (b) samples two floats below / above the press boundary (2^-24 grid), every resistor triple
    for ri in 0..RESISTORS.len() {
        for &fs in &[100u32, 1000, 2000, 8000] {
            s.start_ext(fs, 0.0, ri, 24);
            let (inm, outm, need) = (s.in_max, s.out_min, s.need);
            // two floats below the boundary is a press ...
            for _ in 0..(need + 2) {
                s.poll(inm - rng.below(3) as u32);
            }
            s.jp();
            // ... two floats above it is not: the finger is lifted and the value held
            for _ in 0..3 {
                s.poll(outm);
            }
            s.jr();
            for _ in 0..(need + 2) {
                s.poll(inm);
            }
            s.poll(outm);
            s.poll(outm + 1);
            // a run of samples just above the boundary is no press either
            for _ in 0..(need + 2) {
                s.poll(outm);
            }
            s.jp();
            s.shapes.insert((fs as u64) << 8 | ri as u64 | 1 << 40);
        }
    }
    // (c) sample rates with a fractional part (truncated to whole Hz by the controller)
    for &(fs, frac) in &[(1999u32, 0.5f32), (1999, 0.25), (9999, 0.75), (999, 0.75), (47999, 0.75), (1000, 0.4), (10000, 0.4),
                         (44100, 0.5), (2000, 0.99), (500, 0.5), (2000, -0.1), (1000, -0.5), (10000, -0.25), (48000, -0.5), (500, -0.01)] {
        if fs > 20000 && !thorough && frac != 0.75 {
            continue;
        }
        let ri = rng.below(3) as usize;
        s.start_ext(fs, frac, ri, 12);
        let need = s.need;
        for d in [-1i64, 0, 1] {
            s.hold(rng, (need as i64 + d) as usize, 1, 0);
            s.jp();
            s.lift(rng, 1, 0);
            s.jr();
        }
    }
    // (c2) more sample rates (settling and lift-allowance counts are truncated products of the rate): a run one
    //      sample short of the capture length is no press, the full length is
    for &fs in &[250u32, 3000, 7000, 11025, 14000, 16000, 28000, 31250, 32000, 32768, 45000, 56000, 64000, 88200, 90000, 176400] {
        if fs > 60000 && !thorough && fs != 90000 {
            continue;
        }
        s.start(fs, rng.below(6) as usize);
        let need = s.need;
        s.hold(rng, need - 1, 1, 0);
        s.jp();
        s.lift(rng, 1, 0);
        s.hold(rng, need, 1, 0);
        s.jp();
        s.hold(rng, 3, 1, 0);
        s.lift(rng, 1, 0);
        s.jr();
        s.shapes.insert((fs as u64) << 8 | 0xff);
    }
    // (d) many complete press / release cycles with nobody polling the edge latches, then the latches
    for &(cycles, fs) in &[(256usize, 100u32), (512, 500), (255, 100), (65_536, 100), (65_600, 100)] {
        if cycles > 60_000 && fs != 100 {
            continue;
        }
        s.start(fs, rng.below(3) as usize);
        let need = s.need;
        let code = rng.below(s.in_max as u64 + 1) as u32;
        let thr = s.out_min;
        s.repeat(cycles, 3, |s| {
            for _ in 0..(need + 1) {
                s.poll(code);
            }
            s.poll(thr);
        });
        s.jp();
        s.jr();
        s.jp();
        s.jr();
        // one more cycle, polled
        for _ in 0..(need + 1) {
            s.poll(code);
        }
        s.jp();
        s.poll(thr);
        s.jr();
    }
}

fn run_seq(fs: u32, ri: usize, seq: &[u32]) -> Result<(bool, f32), String> {
    guarded(|| {
        let (mut r, _) = make(fs, RESISTORS[ri]).unwrap();
        for &c in seq {
            r.poll(c as f32 / 4096.0);
        }
        (r.pressing(), r.value())
    })
}

/// two controllers in lock-step: the reported position must not depend on an earlier press nor on
/// the newest (discarded) samples, and must not decrease when a contributing sample is raised
pub fn pair_case(s: &mut Session, fs: u32, ri: usize, seed: u64, variant: u32) {
    let mut rng = Rng::new(seed);
    let thr = threshold_code(RESISTORS[ri]);
    let cap = sample_rate_to_capacity(fs);
    let ig = (fs / 1000) as usize;
    let dc = (fs / 500) as usize;
    let need = cap + ig.max(1) - 1;
    let extra = rng.below(cap as u64 / 2 + 2) as usize;
    let press: Vec<u32> = (0..need + extra).map(|_| rng.below(thr as u64) as u32).collect();
    let mut a: Vec<u32> = Vec::new();
    let mut b: Vec<u32> = Vec::new();
    let kind;
    match variant {
        0 => {
            // (a) differ only in the samples of an earlier press (and an earlier too-short tap)
            kind = "same";
            let p1: Vec<u32> = (0..need + 3).map(|_| rng.below(thr as u64) as u32).collect();
            let p2: Vec<u32> = (0..need + 3).map(|_| rng.below(thr as u64) as u32).collect();
            let tap1: Vec<u32> = (0..need / 2 + 1).map(|_| rng.below(thr as u64) as u32).collect();
            let tap2: Vec<u32> = (0..need / 2 + 1).map(|_| rng.below(thr as u64) as u32).collect();
            a.extend(&p1);
            b.extend(&p2);
            a.push(4096);
            b.push(4096);
            a.extend(&tap1);
            b.extend(&tap2);
            a.push(4096);
            b.push(4096);
            a.extend(&press);
            b.extend(&press);
        }
        1 => {
            // (b) differ only in the newest `dc` samples (finger-lift allowance)
            kind = "same";
            a.extend(&press);
            b.extend(&press);
            let n = b.len();
            for i in 0..dc {
                b[n - 1 - i] = rng.below(thr as u64) as u32;
            }
            if dc == 0 {
                // nothing is discarded at this rate: make the sequences identical
            }
        }
        _ => {
            // (c) one contributing sample raised
            kind = "raise";
            a.extend(&press);
            b.extend(&press);
            let n = b.len();
            // contributing samples: the oldest cap-dc of the last cap
            let lo = n - cap;
            let hi = n - dc;
            let i = lo + rng.below((hi - lo) as u64) as usize;
            b[i] = (b[i] + 1 + rng.below(200) as u32).min(thr - 1);
        }
    }
    let ra = run_seq(fs, ri, &a);
    let rb = run_seq(fs, ri, &b);
    match (ra, rb) {
        (Ok((pa, va)), Ok((pb, vb))) => {
            s.out.line(&format!(
                "{{\"op\":\"pair\",\"kind\":{},\"fs\":{},\"ri\":{},\"seed\":{},\"variant\":{},\"pa\":{},\"pb\":{},\"ka\":{},\"kb\":{}}}",
                jstr(kind), fs, ri, seed, variant, pa, pb, key(va), key(vb)
            ));
            s.stats.add("pairs", 1);
        }
        (Err(m), _) | (_, Err(m)) => {
            s.out.line(&format!("{{\"op\":\"panic\",\"during\":\"pair\",\"msg\":{}}}", jstr(&m)));
        }
    }
}

pub fn drive_pair(s: &mut Session, rng: &mut Rng, thorough: bool) {
    s.out.line("{\"op\":\"new\",\"fs\":100,\"ri\":0,\"cap\":2,\"thr\":4096,\"bq\":16777216,\"ecq\":0}");
    for &fs in RATES.iter() {
        let n = if thorough { if fs >= 22050 { 20 } else { 150 } } else if fs >= 22050 { 3 } else { 25 };
        for i in 0..n {
            for variant in 0..3 {
                let seed = rng.next_u64() >> 12;
                pair_case(s, fs, (i + variant as usize) % 3, seed, variant);
            }
        }
    }
}

/// range end points (C17): samples 0.0 and 1.0, the two codes around the press boundary, all rates and
/// resistor triples, buffers sized by the provided helper
pub fn drive_extreme(s: &mut Session, rng: &mut Rng) {
    for &fs in RATES.iter() {
        for ri in 0..3 {
            s.start(fs, ri);
            let need = s.need;
            let thr = s.out_min;
            let codes = [0u32, 4096, s.in_max, thr, 1, 4095, u32::MAX];
            for _ in 0..(need / 2 + 10).min(400) {
                s.poll(*rng.pick(&codes));
            }
            for _ in 0..(need + 3) {
                s.poll(*rng.pick(&[0u32, thr - 1, u32::MAX]));
            }
            s.jp();
            s.poll(4096);
            s.jr();
            for _ in 0..(need + 3) {
                s.poll(thr - 1);
            }
            s.poll(thr);
        }
    }
}

fn rerun_one(s: &mut Session, e: &serde_json::Value) {
    {
        match e["op"].as_str().unwrap_or("") {
            "new" => {
                if e["thr"].as_u64() == Some(4096) && e["ecq"].as_u64() == Some(0) && e.get("den").is_none() {
                    s.out.line("{\"op\":\"new\",\"fs\":100,\"ri\":0,\"cap\":2,\"thr\":4096,\"bq\":16777216,\"ecq\":0}");
                } else {
                    let den = e.get("den").and_then(|d| d.as_u64()).unwrap_or(4096);
                    let frac = e.get("fr").and_then(|d| d.as_i64()).map(unkey).unwrap_or(0.0);
                    let cfs = e.get("cfs").and_then(|d| d.as_u64()).unwrap_or(e["fs"].as_u64().unwrap());
                    s.start_ext(cfs as u32, frac, e["ri"].as_u64().unwrap_or(0) as usize, den.trailing_zeros())
                }
            }
            "p" => s.poll(e["x"].as_u64().unwrap() as u32),
            "jp" => s.jp(),
            "jr" => s.jr(),
            "pair" => pair_case(
                s,
                e["fs"].as_u64().unwrap() as u32,
                e["ri"].as_u64().unwrap() as usize,
                e["seed"].as_u64().unwrap(),
                e["variant"].as_u64().unwrap() as u32,
            ),
            _ => {}
        }
    }
}

pub fn rerun(lines: &[serde_json::Value], out: &mut Out) {
    let mut s = Session::new(out);
    let mut mark: Option<usize> = None;
    for (i, e) in lines.iter().enumerate() {
        match e["op"].as_str().unwrap_or("") {
            "mark" => {
                s.out.line("{\"op\":\"mark\"}");
                s.out.begin_capture();
                mark = Some(i);
            }
            "rep" => {
                let pat_out = s.out.end_capture();
                s.out.emit_all(&pat_out);
                if let Some(m) = mark.take() {
                    let pat: Vec<&serde_json::Value> = lines[m + 1..i].iter().collect();
                    let n = e["n"].as_u64().unwrap() as usize;
                    s.repeat_like(&pat_out, n, |s| {
                        for x in &pat {
                            rerun_one(s, x);
                        }
                    });
                }
            }
            _ => rerun_one(&mut s, e),
        }
    }
    let rest = s.out.end_capture();
    s.out.emit_all(&rest);
}

pub fn record(driver: &str, seed: u64, thorough: bool, out: &mut Out) -> Stats {
    let mut rng = Rng::new(seed ^ 0x7269_6262);
    let mut s = Session::new(out);
    match driver {
        "press" => {
            drive_press(&mut s, &mut rng, thorough);
            drive_fine(&mut s, &mut rng, thorough);
        }
        "pair" => drive_pair(&mut s, &mut rng, thorough),
        "extreme" => drive_extreme(&mut s, &mut rng),
        _ => {
            eprintln!("unknown ribbon driver {}", driver);
            std::process::exit(2)
        }
    }
    let n = s.shapes.len() as i64;
    s.stats.add("distinct_rate_resistor_configs", n);
    s.stats
}

// ---------------------------------------------------------------------------------------------
// specification -> implementation: TLC graph replay on the real configuration of a 100 / 500 Hz
// ribbon.  Model samples 1, 5 (in range) and 9 (out of range) are played as codes 440 * x.

pub struct GraphTarget {
    fs: u32,
    out: Out,
    rib: Option<Box<dyn Rib>>,
    pend: (u32, u32),
    was_pressing: bool,
}

impl GraphTarget {
    pub fn new(fs: u32) -> Self {
        GraphTarget { fs, out: Out::memory(), rib: None, pend: (0, 0), was_pressing: false }
    }
}

const CODE_PER_UNIT: u32 = 440;

impl crate::graphrun::Target for GraphTarget {
    fn fresh(&mut self) {
        self.out = Out::memory();
        let res = RESISTORS[0];
        let cap = sample_rate_to_capacity(self.fs);
        self.out.line(&format!(
            "{{\"op\":\"new\",\"fs\":{},\"ri\":0,\"cap\":{},\"thr\":{},\"bq\":{},\"ecq\":{}}}",
            self.fs, cap, threshold_code(res), q24(boundary(res)), q24((res.0 + res.1) / res.2)
        ));
        self.rib = Some(make(self.fs, res).unwrap().0);
        self.pend = (0, 0);
        self.was_pressing = false;
    }
    fn apply(&mut self, op: &serde_json::Value, p: &serde_json::Value) -> Vec<String> {
        let mut tags = Vec::new();
        let r = self.rib.as_mut().unwrap();
        match op["op"].as_str().unwrap() {
            "p" => {
                let code = op["x"].as_u64().unwrap() as u32 * CODE_PER_UNIT;
                r.poll(code as f32 / 4096.0);
                let (pr, v) = (r.pressing(), r.value());
                self.out.line(&format!("{{\"op\":\"p\",\"x\":{},\"pr\":{},\"k\":{},\"q\":{}}}", code, pr, key(v), q24(v)));
            }
            // "true exactly once per change": a true needs an unreported change, a false is wrong while the
            // model's latch holds one (several unreported changes may be reported together or one by one)
            "jp" => {
                let b = r.just_pressed();
                self.out.line(&format!("{{\"op\":\"jp\",\"r\":{}}}", b));
                let latch = op["r"].as_bool().unwrap();
                if (b && self.pend.0 == 0) || (!b && latch) {
                    tags.push("C15:just-pressed".to_string());
                }
                if b && self.pend.0 > 0 {
                    self.pend.0 -= 1;
                }
            }
            "jr" => {
                let b = r.just_released();
                self.out.line(&format!("{{\"op\":\"jr\",\"r\":{}}}", b));
                let latch = op["r"].as_bool().unwrap();
                if (b && self.pend.1 == 0) || (!b && latch) {
                    tags.push("C15:just-released".to_string());
                }
                if b && self.pend.1 > 0 {
                    self.pend.1 -= 1;
                }
            }
            other => {
                eprintln!("unknown ribbon graph op {}", other);
                std::process::exit(2)
            }
        }
        let r = self.rib.as_ref().unwrap();
        if r.pressing() != p[0].as_bool().unwrap() {
            tags.push("C15:press-state".to_string());
        }
        // unreported changes of the model's press state
        let now = p[0].as_bool().unwrap();
        if now && !self.was_pressing {
            self.pend.0 += 1;
        }
        if !now && self.was_pressing {
            self.pend.1 += 1;
        }
        self.was_pressing = now;
        // abstraction of the value: corrected mean of the codes the model's <<sum, n>> stands for
        let sum = p[1][0].as_f64().unwrap() * CODE_PER_UNIT as f64;
        let n = p[1][1].as_f64().unwrap();
        let res = RESISTORS[0];
        let m = sum / n / 4096.0;
        let ec = ((res.0 + res.1) / res.2) as f64;
        let expect = (m - (m - m * m) * ec) / boundary(res) as f64;
        if (r.value() as f64 - expect).abs() > 2e-6 {
            tags.push("C16:value".to_string());
        }
        tags
    }
    fn trace(&self) -> Vec<String> {
        self.out.mem.clone()
    }
}
